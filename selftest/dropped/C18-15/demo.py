"""C18 demo 1: seconds_since_unix_epoch of a decimal-hour TimePoint within a
few hours of the epoch, written in a UTC offset whose minute part is not a
multiple of 15, must still be the exact whole number of seconds."""
import os
import sys
sys.path.insert(0, os.getcwd())
from metomi.isodatetime.data import TimePoint  # noqa: E402

failures = []


def check(expected, **kwargs):
    got = TimePoint(**kwargs).seconds_since_unix_epoch
    if got != str(expected):
        failures.append("%s: seconds_since_unix_epoch=%s, expected %s" % (
            kwargs, got, expected))


# 1970-01-01T06,5+05:10 is 01:20:00Z, 4800 s after the epoch.
ZONE = dict(time_zone_hour=5, time_zone_minute=10)
HALF_SIX = dict(hour_of_day=6, hour_of_day_decimal=0.5)
check(4800, year=1970, month_of_year=1, day_of_month=1, **HALF_SIX, **ZONE)
check(4800, year=1970, day_of_year=1, **HALF_SIX, **ZONE)
check(4800, year=1970, week_of_year=1, day_of_week=4, **HALF_SIX, **ZONE)
# The same instant written with minutes and seconds.
check(4800, year=1970, month_of_year=1, day_of_month=1,
      hour_of_day=6, minute_of_hour=30, second_of_minute=0, **ZONE)
# A little before the epoch: 1969-12-31T16,25-05:10 is 21:25:00Z = -9300 s.
check(-9300, year=1969, month_of_year=12, day_of_month=31,
      hour_of_day=16, hour_of_day_decimal=0.25,
      time_zone_hour=-5, time_zone_minute=-10)

# Small sweep: every quarter of an hour of 1970-01-01 (local), in zones
# +03:MM for every minute MM.
for minute in range(60):
    for quarter in range(4 * 24):
        local = quarter * 900
        check(local - 3 * 3600 - minute * 60,
              year=1970, month_of_year=1, day_of_month=1,
              hour_of_day=quarter // 4, hour_of_day_decimal=(quarter % 4) / 4,
              time_zone_hour=3, time_zone_minute=minute)

if failures:
    print("%d wrong Unix times, e.g.:" % len(failures))
    for line in failures[:8]:
        print("  " + line)
    sys.exit(1)
print("ok")
