"""C13 demo 1: get_is_valid() must accept a member whatever UTC offset the
probe is written in.

The series below is written with a decimal hour (T06,5 = 06:30).  Every probe
is an ordinary hh:mm:ss spelling of one of its members in another UTC offset.
"""
import os
import sys

sys.path.insert(0, os.getcwd())

from metomi.isodatetime.parsers import (  # noqa: E402
    TimePointParser, TimeRecurrenceParser)

point_parser = TimePointParser()
recurrence_parser = TimeRecurrenceParser()

CASES = [
    # recurrence, [(probe, expected membership)]
    ("R/2020-01-01T06,5Z/P1D", [
        ("2020-01-03T06:30:00Z", True),
        ("2020-01-03T09:30:00+03:00", True),
        ("2020-01-03T09:50:00+03:20", True),
        ("2020-01-03T10:05:00+03:35", True),
        ("2020-01-03T02:40:00-03:50", True),
        ("2020-01-03T09:51:00+03:20", False),
    ]),
    ("R5/2020-01-01T06,5Z/PT6H", [
        ("2020-01-01T22:10:00+03:40", True),   # 18:30Z, 3rd member
        ("2020-01-02T10:25:00+03:55", True),   # 06:30Z, last member
        ("2020-01-02T16:25:00+03:55", False),  # one step past the end
    ]),
    ("R/P1D/2020-01-10T06,5Z", [
        ("2020-01-08T03:10:00-03:20", True),
        ("2020-01-08T03:11:00-03:20", False),
    ]),
]

failures = []
for rec_text, probes in CASES:
    recurrence = recurrence_parser.parse(rec_text)
    members = []
    for i, member in enumerate(recurrence):
        if i >= 12:
            break
        members.append(member)
    for probe_text, expected in probes:
        probe = point_parser.parse(probe_text)
        # Independent oracle: compare UTC strings of iterated members.
        iterated = any(
            str(m.to_utc().to_hour_minute_second()) == str(probe.to_utc())
            for m in members)
        got = recurrence.get_is_valid(probe)
        if iterated != expected:
            failures.append("oracle disagreement for %s in %s" % (
                probe_text, rec_text))
        if got != expected:
            failures.append(
                "%s.get_is_valid(%s) -> %s, but iteration %s that instant" % (
                    rec_text, probe_text, got,
                    "yields" if expected else "does not yield"))

if failures:
    print("C13 violated:")
    for line in failures:
        print("  " + line)
    sys.exit(1)
print("ok")
