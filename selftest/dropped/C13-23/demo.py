"""Demo for change 2: get_first_after near the max_point of a recurrence.

Run from the worktree:  TZ=UTC python demo2.py
Exit 0 = get_first_after agrees with iteration, exit 1 = disagreement.
"""
import itertools
import os
import sys

sys.path.insert(0, os.getcwd())

from metomi.isodatetime.data import TimeRecurrence  # noqa: E402
from metomi.isodatetime.parsers import (  # noqa: E402
    DurationParser, TimePointParser)

point = TimePointParser().parse
problems = []


def check(rec, probe_strings, limit=50):
    """Compare get_first_after with what iteration yields."""
    members = list(itertools.islice(iter(rec), limit))
    assert len(members) < limit  # series used here are all finite
    for probe_string in probe_strings:
        probe = point(probe_string)
        later = [member for member in members if member > probe]
        expected = later[0] if later else None
        got = rec.get_first_after(probe)
        same = (got is None) if expected is None else (
            got is not None and got == expected)
        if not same:
            problems.append(
                "%s (max_point %s; last iterated member %s): "
                "get_first_after(%s) = %s, expected %s" % (
                    rec, rec.max_point, members[-1], probe, got, expected))


# Unbounded daily series cut short by max_point: members 1..5 January.
check(
    TimeRecurrence(
        start_point=point("2020-01-01T00:00:00Z"),
        duration=DurationParser().parse("P1D"),
        max_point=point("2020-01-05T12:00:00Z")),
    ["2019-12-25T00:00:00Z", "2020-01-01T00:00:00Z", "2020-01-03T06:00:00Z",
     "2020-01-04T23:59:59Z", "2020-01-05T00:00:00Z", "2020-01-05T06:00:00Z",
     "2020-01-05T05:30:00+05:30", "2020-01-05T12:00:00Z",
     "2020-01-06T00:00:00Z"])

# Ten six-hourly repetitions, of which max_point keeps the first four.
check(
    TimeRecurrence(
        repetitions=10,
        start_point=point("2021-02-28T06:00:00+01:00"),
        duration=DurationParser().parse("PT6H"),
        max_point=point("2021-03-01T02:00:00+01:00")),
    ["2021-02-28T05:00:00Z", "2021-02-28T17:00:00Z", "2021-02-28T23:00:00Z",
     "2021-03-01T00:30:00Z", "2021-03-01T01:00:00Z", "2021-03-02T00:00:00Z"])

# The same without max_point (control: both trees agree here).
check(
    TimeRecurrence(
        repetitions=4,
        start_point=point("2021-02-28T06:00:00+01:00"),
        duration=DurationParser().parse("PT6H")),
    ["2021-02-28T05:00:00Z", "2021-02-28T17:00:00Z", "2021-02-28T23:00:00Z",
     "2021-03-01T00:30:00Z", "2021-03-02T00:00:00Z"])

if problems:
    print("PROPERTY VIOLATED:")
    for line in problems:
        print("  " + line)
    sys.exit(1)
print("ok")
sys.exit(0)
