"""Demo for C15 change 2.

In the 360-day calendar (twelve 30-day months) a week-date year has 51 or 52
weeks (2001 has 52, 2000/2002/2003 have 51).  Adding or subtracting whole
years to a week date in W52 must therefore land in the last week (W51) of a
51-week year, exactly as a W53 date lands in W52 of a short Gregorian year.
"""
import contextlib
import io
import os
import sys

sys.path.insert(0, os.getcwd())

from metomi.isodatetime import data  # noqa: E402
from metomi.isodatetime.data import Duration, TimePoint  # noqa: E402
from metomi.isodatetime.main import main  # noqa: E402
from metomi.isodatetime.parsers import TimeRecurrenceParser  # noqa: E402

failures = []


def check(label, func, expected):
    try:
        got = func()
    except BaseException as exc:  # report, do not crash
        got = "%s: %s" % (type(exc).__name__, exc)
    if got != expected:
        failures.append("%s: got %r, expected %r" % (label, got, expected))


def wk(year, week, day):
    return TimePoint(year=year, week_of_year=week, day_of_week=day,
                     time_zone_hour=0, time_zone_minute=0)


def cli(*argv):
    sys.stdin = io.StringIO("")
    out = io.StringIO()
    with contextlib.redirect_stdout(out):
        main(list(argv))
    return out.getvalue().strip()


# Sanity in the modes whose years always have at least 52 weeks.
data.CALENDAR.set_mode("gregorian")
check("gregorian 2020-W53-3 + P1Y",
      lambda: str(wk(2020, 53, 3) + Duration(years=1)),
      "2021-W52-3T00:00:00Z")
data.CALENDAR.set_mode("365day")
check("365day 2001-W52-3 + P1Y",
      lambda: str(wk(2001, 52, 3) + Duration(years=1)),
      "2002-W52-3T00:00:00Z")

# The 360-day calendar: year lengths in weeks are those of the mode.
for mode in ("360day", "360_day"):
    data.CALENDAR.set_mode(mode)
    check(mode + " weeks in 2001/2002",
          lambda: (data.get_weeks_in_year(2001), data.get_weeks_in_year(2002)),
          (52, 51))
    check(mode + " 2001-W52-3 + P1Y",
          lambda: str(wk(2001, 52, 3) + Duration(years=1)),
          "2002-W51-3T00:00:00Z")
    check(mode + " 2001-W52-3 + P1Y as calendar date",
          lambda: str((wk(2001, 52, 3) + Duration(years=1))
                      .to_calendar_date()),
          "2002-12-26T00:00:00Z")
    check(mode + " 2001-W52-3 - P1Y",
          lambda: str(wk(2001, 52, 3) - Duration(years=1)),
          "2000-W51-3T00:00:00Z")
    check(mode + " R4/2001-W52-3T00Z/P1Y",
          lambda: [str(p) for p in
                   TimeRecurrenceParser().parse("R4/2001-W52-3T00Z/P1Y")],
          ["2001-W52-3T00:00:00Z", "2002-W51-3T00:00:00Z",
           "2003-W51-3T00:00:00Z", "2004-W51-3T00:00:00Z"])
data.CALENDAR.set_mode()

# Same thing through the command line.
check("cli --calendar=360day 2001-W52-3T00Z --offset=P1Y",
      lambda: cli("--calendar=360day", "2001-W52-3T00Z", "--offset=P1Y"),
      "2002-W51-3T00Z")
check("cli --calendar=360day 2004-W52-1T00Z --offset=-P1Y -f CCYY-MM-DD",
      lambda: cli("--calendar=360day", "2004-W52-1T00Z", "--offset=-P1Y",
                  "-f", "CCYY-MM-DD"),
      "2003-12-21")
data.CALENDAR.set_mode()

if failures:
    print("360-day calendar week-year length not honoured:")
    for failure in failures:
        print("  " + failure)
    sys.exit(1)
print("ok")
