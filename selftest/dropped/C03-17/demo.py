"""Demo for change2: dumping a calendar/ordinal date in the reduced week
format (week-year + week, no weekday) prints the calendar year instead of the
ISO week-year for the days around New Year that belong to another week-year."""
import os
import sys

sys.path.insert(0, os.getcwd())

from metomi.isodatetime.data import (  # noqa: E402
    CALENDAR, TimePoint, get_days_in_month, get_days_in_year,
    get_week_date_from_calendar_date)
from metomi.isodatetime.dumpers import TimePointDumper  # noqa: E402
from metomi.isodatetime.parsers import TimePointParser  # noqa: E402

failures = []
dumper = TimePointDumper(num_expanded_year_digits=0)

for mode in ["gregorian", "360day", "365day", "366_day"]:
    CALENDAR.set_mode(mode)
    last = get_days_in_month(12, 2008)
    for year in range(2004, 2012):
        days = [(year, 12, d) for d in range(last - 3, last + 1)]
        days += [(year + 1, 1, d) for d in range(1, 5)]
        days += [(year, 6, 15)]
        for cal in days:
            wyear, week, wday = get_week_date_from_calendar_date(*cal)
            cal_point = TimePoint(
                year=cal[0], month_of_year=cal[1], day_of_month=cal[2])
            ord_point = cal_point.to_ordinal_date()
            week_point = TimePoint(
                year=wyear, week_of_year=week, day_of_week=wday)
            for fmt, want in [
                    ("CCYY-Www", "%04d-W%02d" % (wyear, week)),
                    ("CCYYWww", "%04dW%02d" % (wyear, week)),
                    ("CCYY-Www-D", "%04d-W%02d-%d" % (wyear, week, wday))]:
                for label, point in [("calendar", cal_point),
                                     ("ordinal", ord_point),
                                     ("week", week_point)]:
                    got = dumper.dump(point, fmt)
                    if got != want:
                        failures.append(
                            "[%s] %s point %s dumped as %r gives %r, "
                            "expected %r" % (
                                mode, label, point, fmt, got, want))
    # The same through a parser configured with a reduced week dump format.
    parser = TimePointParser(dump_format="CCYY-Www")
    text = "2008-12-%02d" % last
    wyear, week, _ = get_week_date_from_calendar_date(2008, 12, last)
    got = str(parser.parse(text))
    want = "%04d-W%02d" % (wyear, week)
    if got != want:
        failures.append("[%s] parser(dump_format='CCYY-Www').parse(%r) "
                        "prints %r, expected %r" % (mode, text, got, want))
CALENDAR.set_mode()

if failures:
    print("%d wrong week-form dumps, e.g.:" % len(failures))
    for line in failures[:12]:
        print("  " + line)
    sys.exit(1)
print("ok")
