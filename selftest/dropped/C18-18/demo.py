"""C18 change 1 demo: seconds_since_unix_epoch of pre-epoch instants that
carry a fractional second."""
import os
import sys
sys.path.insert(0, os.getcwd())

from metomi.isodatetime.data import (  # noqa: E402
    TimePoint, get_timepoint_from_seconds_since_unix_epoch)
from metomi.isodatetime.parsers import TimePointParser  # noqa: E402

bad = []


def check(point, expected):
    got = point.seconds_since_unix_epoch
    if got != str(expected):
        bad.append("%s: seconds_since_unix_epoch=%s, expected %s" % (
            point, got, expected))


# Control cases (whole seconds, either side of the epoch; fractions after it)
for n in (-86401, -86400, -61, -1, 0, 1, 59, 86399, 86400, 1500000000,
          -1500000000):
    check(get_timepoint_from_seconds_since_unix_epoch(n, utc=True), n)
check(TimePoint(year=1970, month_of_year=1, day_of_month=1, hour_of_day=0,
                minute_of_hour=0, second_of_minute=1,
                second_of_minute_decimal=0.5,
                time_zone_hour=0, time_zone_minute=0), 1)

# Instants BEFORE the epoch with a fractional second: the whole number of
# seconds between the epoch and the instant (what the library has always
# reported: the elapsed whole seconds, sign attached).
parser = TimePointParser()
for text, expected in [
    ("1969-12-31T23:59:59.5Z", 0),        # half a second before the epoch
    ("1969-12-31T23:59:58.25Z", -1),      # 1.75 s before
    ("1969-12-31T18:29:30.5-05:30", -29),  # 29.5 s before, other offset
    ("1970-W01-3T00:00:00.5Z", -86399),   # week date, 86399.5 s before
    ("1900-001T00:00:00.75Z", -2208988799),
]:
    check(parser.parse(text), expected)

if bad:
    print("FAIL: Unix time of pre-epoch fractional-second points is wrong")
    for line in bad:
        print("  " + line)
    sys.exit(1)
print("ok")
