"""Round trip of durations whose nominal units were passed as None."""
import os
import sys

sys.path.insert(0, os.getcwd())

from metomi.isodatetime.data import Duration  # noqa: E402
from metomi.isodatetime.parsers import DurationParser  # noqa: E402

parser = DurationParser()
failures = []
cases = [
    dict(years=None, days=3, hours=1.5),
    dict(months=None, seconds=-2),
    dict(years=None, months=None, hours=4, minutes=30),
    dict(years=None, months=0, days=10),
    # controls
    dict(days=3, hours=1.5),
    dict(years=None, months=None, weeks=2),
    dict(years=1, months=2, days=3),
]
for kwargs in cases:
    dur = Duration(**kwargs)
    text = str(dur)
    back = parser.parse(text)
    if not (back == dur and dur == back):
        failures.append("%r: str=%s but parse(str(d)) != d" % (kwargs, text))
    if str(back) != text:
        failures.append("%r: str not a fixpoint: %s -> %s"
                        % (kwargs, text, str(back)))
if failures:
    print("\n".join(failures))
    sys.exit(1)
print("ok")
