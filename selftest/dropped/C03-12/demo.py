"""Demo for change2: the calendar view of an ISO week date printed through the
datetime-strftime fallback (print formats with directives such as %A, %B, %a,
%b that isodatetime does not implement itself) has the wrong year for days
whose ISO week-year differs from their calendar year."""
import contextlib
import datetime
import io
import os
import sys

sys.path.insert(0, os.getcwd())

from metomi.isodatetime.data import CALENDAR, TimePoint  # noqa: E402
from metomi.isodatetime.datetimeoper import DateTimeOperator  # noqa: E402
from metomi.isodatetime.main import main  # noqa: E402

PRINT_FORMAT = "%A %d %B %Y"
failures = []


def run_cli(argv):
    sys.stdin = io.StringIO("")
    buf = io.StringIO()
    with contextlib.redirect_stdout(buf):
        main(argv)
    return buf.getvalue().strip()


# Every day of ISO weeks 1, 52 and 53 (where present) for a span of years,
# given to the command line as a week date, printed as a calendar date.
for week_year in range(2014, 2028):
    for week in (1, 2, 30, 52, 53):
        for day_of_week in range(1, 8):
            try:
                date = datetime.date.fromisocalendar(
                    week_year, week, day_of_week)
            except ValueError:
                continue  # no week 53 in this week-year
            text = "%04d-W%02d-%d" % (week_year, week, day_of_week)
            expected = date.strftime(PRINT_FORMAT)
            got = run_cli([text, "--print-format=" + PRINT_FORMAT])
            if got != expected:
                failures.append("isodatetime %s -f '%s' -> %r, expected %r" % (
                    text, PRINT_FORMAT, got, expected))
            # The same day given as calendar / ordinal date must agree.
            for other in (date.strftime("%Y-%m-%d"), date.strftime("%Y-%j")):
                got = run_cli([other, "--print-format=" + PRINT_FORMAT])
                if got != expected:
                    failures.append(
                        "isodatetime %s -f '%s' -> %r, expected %r" % (
                            other, PRINT_FORMAT, got, expected))

# Direct API use of the same entry point.
CALENDAR.set_mode("gregorian")
point = TimePoint(year=2020, week_of_year=1, day_of_week=1)  # 2019-12-30
got = DateTimeOperator().strftime(point, "%a %d %b %Y")
if got != "Mon 30 Dec 2019":
    failures.append(
        "DateTimeOperator().strftime(2020-W01-1, '%%a %%d %%b %%Y') -> %r, "
        "expected 'Mon 30 Dec 2019'" % got)

if failures:
    print("FAIL: week date -> calendar date view is wrong "
          "(%d cases), e.g.:" % len(failures))
    for failure in failures[:12]:
        print("  " + failure)
    sys.exit(1)
print("OK")
sys.exit(0)
