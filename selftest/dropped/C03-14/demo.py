"""Demo 2: week dates printed through the strftime fallback name another day.

Exit 0 when the library behaves, 1 (with a message) when it does not.
"""
import contextlib
import io
import os
import sys

sys.path.insert(0, os.getcwd())

from metomi.isodatetime import data  # noqa: E402
from metomi.isodatetime.datetimeoper import DateTimeOperator  # noqa: E402
from metomi.isodatetime.main import main as cli_main  # noqa: E402


def run_cli(argv):
    out = io.StringIO()
    old_stdin = sys.stdin
    sys.stdin = io.StringIO("")
    try:
        with contextlib.redirect_stdout(out):
            cli_main(argv)
    finally:
        sys.stdin = old_stdin
    return out.getvalue().strip()


# (week-date text, the same day as calendar date + weekday name)
CASES = [
    ("2009-W01-1", "2008-12-29 Mon"),   # week year 2009, calendar year 2008
    ("2009-W53-7", "2010-01-03 Sun"),   # week year 2009, calendar year 2010
    ("2021-W01-3", "2021-01-06 Wed"),   # control: same year
    ("2015-W27-5", "2015-07-03 Fri"),   # control: mid-year
]


def main():
    os.environ.pop("ISODATETIMECALENDAR", None)
    data.CALENDAR.set_mode("gregorian")
    problems = []
    for text, want in CASES:
        # %a is not one of isodatetime's own directives, so the documented
        # fallback to the datetime library is used for the whole format.
        got = run_cli(["--print-format=%Y-%m-%d %a", text])
        if got != want:
            problems.append("isodatetime --print-format='%%Y-%%m-%%d %%a' %s"
                            " -> %r, expected %r" % (text, got, want))
        # Week date -> (fallback) -> ISO week date must give the same day.
        got = run_cli(["--print-format=%G-W%V-%u", text])
        if got != text:
            problems.append("isodatetime --print-format='%%G-W%%V-%%u' %s"
                            " -> %r, expected %r" % (text, got, text))
        # The same through the public API, with all three views of the day.
        point = DateTimeOperator().date_parse(text)[0]
        for view in (point, point.to_calendar_date(),
                     point.to_ordinal_date()):
            got = DateTimeOperator.get_datetime_strftime(view, "%Y-%m-%d %a")
            if got != want:
                problems.append(
                    "get_datetime_strftime(%s) -> %r, expected %r" % (
                        view, got, want))
    if problems:
        print("FAIL: a week date and its printed calendar form differ:")
        for line in problems:
            print("  " + line)
        return 1
    print("OK")
    return 0


if __name__ == "__main__":
    sys.exit(main())
