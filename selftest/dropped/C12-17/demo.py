"""Demo for C12 change 1: yearly recurrences anchored on a 24:00 spelling."""
import os
import sys

sys.path.insert(0, os.getcwd())

from metomi.isodatetime.data import Calendar, TimePoint  # noqa: E402
from metomi.isodatetime.parsers import TimeRecurrenceParser  # noqa: E402

Calendar.default().set_mode("gregorian")
PARSER = TimeRecurrenceParser()


def cal(year, month, day):
    return TimePoint(year=year, month_of_year=month, day_of_month=day,
                     time_zone_hour=0, time_zone_minute=0)


def take(rec, num):
    out = []
    for point in rec:
        out.append(point)
        if len(out) == num:
            break
    return out


# (recurrence, expected instants): every point is <year>-02-28T24:00, i.e.
# the previous point with only the year number moved by the interval.
CASES = [
    # start/duration, unbounded: Feb 28 24:00 is Feb 29 in the leap year 2020
    ("R/2019-02-28T24:00Z/P1Y",
     [cal(2019, 3, 1), cal(2020, 2, 29), cal(2021, 3, 1), cal(2022, 3, 1)]),
    # same series, bounded
    ("R3/2019-02-28T24:00Z/P1Y",
     [cal(2019, 3, 1), cal(2020, 2, 29), cal(2021, 3, 1)]),
    # duration/end, unbounded, ordinal date: end, end-d, end-2d
    # 2021-365T24 = 2022-01-01, 2020-365T24 = 2020-12-31, 2019-365T24 = 2020-01-01
    ("R/P1Y/2021-365T24:00Z",
     [cal(2022, 1, 1), cal(2020, 12, 31), cal(2020, 1, 1)]),
    # control: same anchors spelled without 24:00 are unaffected
    ("R3/2019-03-01T00:00Z/P1Y",
     [cal(2019, 3, 1), cal(2020, 3, 1), cal(2021, 3, 1)]),
]

failures = []
for text, expected in CASES:
    rec = PARSER.parse(text)
    got = take(rec, len(expected))
    if len(got) != len(expected) or any(
            not (g == e) for g, e in zip(got, expected)):
        failures.append("%s\n   yielded  %s\n   expected %s" % (
            text, [str(p) for p in got], [str(p) for p in expected]))

if failures:
    print("Recurrence does not iterate the series it denotes:")
    for failure in failures:
        print(" *", failure)
    sys.exit(1)
print("ok")
