"""Two TimePoints one hour apart must not compare equal (C02).

The second point is put into a zone obtained by time-zone arithmetic
(+05:00 minus +03:30, i.e. +01:30 held as 2 h - 30 min).
"""
import os
import sys

sys.path.insert(0, os.getcwd())

from metomi.isodatetime.data import TimePoint, TimeZone  # noqa: E402

problems = []

zone = TimeZone(hours=5) - TimeZone(hours=3, minutes=30)   # +01:30
assert zone.get_seconds() == 5400

# 12:00 at +02:30 is 09:30Z
a = TimePoint(year=2000, month_of_year=6, day_of_month=15,
              hour_of_day=12, time_zone_hour=2, time_zone_minute=30)
# 10:30Z shown in the +01:30 zone is 12:00 local
b = TimePoint(year=2000, month_of_year=6, day_of_month=15,
              hour_of_day=10, minute_of_hour=30,
              time_zone_hour=0, time_zone_minute=0).to_time_zone(zone)
utc_b = b.to_utc()
if (utc_b.hour_of_day, utc_b.minute_of_hour) != (10, 30):
    problems.append("b is not 10:30Z any more: %s" % utc_b)

for x, y, want in [(a, b, -1), (b, a, 1)]:
    got = (x < y, x == y, x > y, x <= y, x >= y, x != y)
    exp = (want < 0, False, want > 0, want < 0, want > 0, True)
    if got != exp:
        problems.append(
            "(<, ==, >, <=, >=, !=) = %s, expected %s" % (got, exp))
    diff = (x - y).get_seconds()
    if (diff > 0) - (diff < 0) != want:
        problems.append("sign of difference %s is not %s" % (diff, want))
    if (x == y) and diff != 0:
        problems.append("points compare equal but differ by %s s" % diff)

if len({a, b}) != 2 or len({a: 1, b: 2}) != 2:
    problems.append("set/dict merged two different instants")
if sorted([b, a]) != sorted([a, b]) or sorted([b, a])[0] is not a:
    problems.append("sorting does not put the earlier point first")

if problems:
    print("C02 violated:")
    for line in problems:
        print("  " + line)
    sys.exit(1)
print("ok")
