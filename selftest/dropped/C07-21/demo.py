"""C07 demo 1: truncated forms switched on through the parser's public
``allow_truncated`` attribute must decode exactly like a parser constructed
with allow_truncated=True (and switched off again must behave like the
default parser)."""
import os
import sys

sys.path.insert(0, os.getcwd())

from metomi.isodatetime.parsers import TimePointParser  # noqa: E402
from metomi.isodatetime.exceptions import ISO8601SyntaxError  # noqa: E402

failures = []


def describe(parser, text):
    try:
        point = parser.parse(text, dump_as_parsed=True)
    except ISO8601SyntaxError as exc:
        return ("refused", str(exc))
    if point.truncated:
        zone = point.time_zone
        return ("truncated", point.get_truncated_properties(),
                zone.unknown, str(point))
    return ("complete", point.year, point.month_of_year, point.day_of_month,
            point.num_expanded_year_digits, str(point))


# (text, fields expected when truncation is enabled)
CASES = [
    ("--0501", {"month_of_year": 5, "day_of_month": 1}),
    ("-W-3", {"day_of_week": 3}),
    ("-9001", {"year_of_century": 90, "month_of_year": 1}),
    ("-0012", {"year_of_century": 0, "month_of_year": 12}),
    ("960328T1230Z", {"year_of_century": 96, "month_of_year": 3,
                      "day_of_month": 28, "hour_of_day": 12,
                      "minute_of_hour": 30}),
    ("T-5612", {"minute_of_hour": 56, "second_of_minute": 12}),
]

reference = TimePointParser(allow_truncated=True,
                            default_to_unknown_time_zone=True)
switched = TimePointParser(default_to_unknown_time_zone=True)
# ... the application decides later that truncated forms are welcome:
switched.allow_truncated = True

for text, fields in CASES:
    want = describe(reference, text)
    got = describe(switched, text)
    if want[0] != "truncated" or want[1] != fields or want[3] != text:
        failures.append("reference parser is wrong for %r: %r" % (text, want))
    if got != want:
        failures.append(
            "%r with allow_truncated switched on after construction: "
            "got %r, a parser built with allow_truncated=True gives %r"
            % (text, got, want))

# And the other direction: switching truncation off again.
plain = TimePointParser(default_to_unknown_time_zone=True)
reference.allow_truncated = False
for text in ["-9001", "-0012", "--0501", "1985-04-12T10:15Z", "-001985"]:
    want = describe(plain, text)
    got = describe(reference, text)
    if got != want:
        failures.append(
            "%r with allow_truncated switched off after construction: "
            "got %r, a default parser gives %r" % (text, got, want))

if failures:
    print("FAIL")
    for item in failures:
        print(" -", item)
    sys.exit(1)
print("OK")
sys.exit(0)
