"""C06 demo 2: a dump that spells out a literal zone must stay the same
instant (to within the 6 d.p. the dumper prints) and must not lose a whole
hour / minute / second for decimal time fields that lie just below a unit.
"""
import os
import sys

sys.path.insert(0, os.getcwd())

from metomi.isodatetime.data import TimePoint  # noqa
from metomi.isodatetime.dumpers import TimePointDumper  # noqa
from metomi.isodatetime.parsers import TimePointParser  # noqa

TOLERANCE_SECONDS = 0.01  # 6 d.p. of an hour is 3.6 ms

dumper = TimePointDumper()
parser = TimePointParser()

DATE = dict(year=2020, month_of_year=12, day_of_month=31)
FRACTIONS = [0.5, 0.999, 0.9999996, 0.99999976, 1 - 2.0 ** -24,
             1 - 2.0 ** -30, 1 - 2.0 ** -53]
CASES = []
for frac in FRACTIONS:
    CASES.append((
        dict(hour_of_day=22, hour_of_day_decimal=frac,
             time_zone_hour=5, time_zone_minute=30),
        "CCYY-MM-DDThh,ii"))
    CASES.append((
        dict(hour_of_day=23, minute_of_hour=58, minute_of_hour_decimal=frac,
             time_zone_hour=-3, time_zone_minute=-30),
        "CCYY-MM-DDThh:mm,nn"))
    CASES.append((
        dict(hour_of_day=23, minute_of_hour=59, second_of_minute=58,
             second_of_minute_decimal=frac, time_zone_hour=0,
             time_zone_minute=-30),
        "CCYY-MM-DDThh:mm:ss,tt"))
ZONES = ["Z", "+05:30", "-03:30", "+09:30", "-00:30", "+13:00", "-11:00"]

problems = []
for kwargs, fmt in CASES:
    kwargs = dict(DATE, **kwargs)
    point = TimePoint(**kwargs)
    for zone in ZONES:
        text = dumper.dump(point, fmt + zone)
        try:
            back = parser.parse(text)
        except Exception as exc:  # not a valid date-time any more
            problems.append("%r dumped as %r: %r" % (kwargs, text, exc))
            continue
        delta = back - point
        off = abs(delta.get_seconds())
        if off > TOLERANCE_SECONDS:
            problems.append(
                "%s with %r gave %s, which is %.6f s away from the original"
                % (point, fmt + zone, text, off))

if problems:
    print("C06 violated: literal-zone dump is not the same instant")
    for problem in problems:
        print("  " + problem)
    sys.exit(1)
print("ok")
