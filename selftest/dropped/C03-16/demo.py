"""Demo for change2: the leap rule / year-length / month-length queries and
the calendar <-> ordinal conversions must keep working for TimePoints whose
year became an integral float through ordinary public arithmetic
(TimePoint + Duration(years=1.0)).
"""
import os
import sys

sys.path.insert(0, os.getcwd())

from metomi.isodatetime.data import (  # noqa: E402
    CALENDAR, Duration, TimePoint, get_days_in_month, get_days_in_year,
    get_is_leap_year, get_calendar_date_from_ordinal_date,
    get_ordinal_date_from_calendar_date)

failures = []


def check(label, func, expected):
    try:
        got = func()
    except Exception as exc:  # these queries/conversions must be total
        failures.append("%s: raised %s: %s (expected %r)" % (
            label, type(exc).__name__, exc, expected))
        return
    if got != expected:
        failures.append("%s: got %r, expected %r" % (label, got, expected))


# mode, day-of-year of 1 March 2024, days in 2024, days in Feb 2024
for mode, doy, year_len, feb_len in [
        ("gregorian", 61, 366, 29),
        ("360_day", 61, 360, 30),
        ("365day", 60, 365, 28),
        ("366_day", 61, 366, 29)]:
    CALENDAR.set_mode(mode)
    try:
        one_year = Duration(years=1.0)  # accepted: integral float
        # Calendar form -> ordinal form, one year on.
        cal = TimePoint(year=2023, month_of_year=3, day_of_month=1)
        label = "[%s] (2023-03-01 + Duration(years=1.0))" % mode
        check(label + " construct", lambda: str(cal + one_year),
              "2024-03-01T00:00:00Z")
        check(label + ".get_ordinal_date()",
              lambda: (cal + one_year).get_ordinal_date(), (2024, doy))
        check(label + ".day_of_year",
              lambda: (cal + one_year).day_of_year, doy)
        check(label + ".to_ordinal_date().get_calendar_date()",
              lambda: (cal + one_year).to_ordinal_date().get_calendar_date(),
              (2024, 3, 1))
        # Ordinal form -> calendar form, one year on.
        ordinal = TimePoint(year=2027, day_of_year=doy)
        label = "[%s] (2027-%03d + Duration(years=1.0))" % (mode, doy)
        check(label + ".get_calendar_date()",
              lambda: (ordinal + one_year).get_calendar_date(), (2028, 3, 1))
        check(label + ".to_calendar_date() string",
              lambda: str((ordinal + one_year).to_calendar_date()),
              "2028-03-01T00:00:00Z")
        # The queries and conversion functions themselves.
        check("[%s] get_is_leap_year(2032.0)" % mode,
              lambda: bool(get_is_leap_year(2032.0)), True)
        check("[%s] get_is_leap_year(2100.0)" % mode,
              lambda: bool(get_is_leap_year(2100.0)), False)
        check("[%s] get_days_in_year(2036.0)" % mode,
              lambda: get_days_in_year(2036.0), year_len)
        check("[%s] get_days_in_month(2, 2040.0)" % mode,
              lambda: get_days_in_month(2, 2040.0), feb_len)
        check("[%s] get_ordinal_date_from_calendar_date(2044.0, 3, 1)" % mode,
              lambda: get_ordinal_date_from_calendar_date(2044.0, 3, 1),
              (2044, doy))
        check("[%s] get_calendar_date_from_ordinal_date(2048.0, %d)" % (
            mode, doy),
            lambda: get_calendar_date_from_ordinal_date(2048.0, doy),
            (2048, 3, 1))
        # Sanity: plain ints are right in both trees.
        check("[%s] get_days_in_year(2052)" % mode,
              lambda: get_days_in_year(2052), year_len)
        check("[%s] get_is_leap_year(1900), (2000), (-4), (0)" % mode,
              lambda: [bool(get_is_leap_year(y))
                       for y in (1900, 2000, -4, 0)],
              [False, True, True, True])
    finally:
        CALENDAR.set_mode()

if failures:
    print("FAIL: leap rule / year-length / calendar<->ordinal broke:")
    for failure in failures:
        print("  " + failure)
    sys.exit(1)
print("OK")
sys.exit(0)
