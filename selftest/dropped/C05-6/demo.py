"""C05 demo 2: month and year arithmetic anchored on an end-of-day (24:00) time.

A TimePoint written with hour 24 still belongs to its own calendar day:
adding months or years must step/clamp from that day (the result may then be
written either as 24:00 or as 00:00 of the following day - both are accepted
here for months by comparing instants), and adding whole years must keep the
month/day (or ordinal day, or week and weekday) and the 24:00 time of day.
"""
import io
import os
import sys
from contextlib import redirect_stdout

sys.path.insert(0, os.getcwd())

from metomi.isodatetime.data import Duration  # noqa: E402
from metomi.isodatetime.main import main  # noqa: E402
from metomi.isodatetime.parsers import TimePointParser  # noqa: E402

parse = TimePointParser().parse
failures = []


def check_instant(start, duration, expected):
    got = parse(start) + duration
    if not (got == parse(expected)):
        failures.append("%s + %s: got %s, expected the instant %s" % (
            start, duration, got, expected))


def check_text(start, duration, expected):
    got = str(parse(start) + duration)
    if got != expected:
        failures.append("%s + %s: got %s, expected %s" % (
            start, duration, got, expected))


def check_cli(argv, expected):
    sys.stdin = io.StringIO("")
    buf = io.StringIO()
    with redirect_stdout(buf):
        main(list(argv))
    got = buf.getvalue().strip()
    if got != expected:
        failures.append("isodatetime %s: got %s, expected %s" % (
            " ".join(argv), got, expected))


# Months: step from the day the 24:00 belongs to, clamp, keep end of day.
check_instant("2020-01-30T24:00Z", Duration(months=1), "2020-02-29T24:00Z")
check_instant("2021-01-28T24:00Z", Duration(months=1), "2021-02-28T24:00Z")
check_instant("2020-04-30T24:00Z", Duration(months=1), "2020-05-30T24:00Z")
check_instant("2020-03-30T24:00+05:30", Duration(months=-1),
              "2020-02-29T24:00+05:30")
check_instant("2019-11-29T24:00Z", Duration(years=1, months=3),
              "2021-02-28T24:00Z")
# Years: month/day (ordinal day, week and weekday) and time of day are kept.
check_text("2019-02-28T24:00Z", Duration(years=1), "2020-02-28T24:00:00Z")
check_text("2020-02-28T24:00Z", Duration(years=-1), "2019-02-28T24:00:00Z")
check_text("2019-365T24:00Z", Duration(years=1), "2020-365T24:00:00Z")
check_text("2023-W52-7T24:00-03:00", Duration(years=1),
           "2024-W52-7T24:00:00-03:00")
check_instant("2019-02-28T24:00Z", Duration(years=1), "2020-02-29T00:00Z")
check_instant("2019-365T24:00Z", Duration(years=1), "2020-366T00:00Z")
# Command line.
check_cli(["2019-02-28T24:00Z", "--offset=P1Y"], "2020-02-28T24:00Z")
check_cli(["2020-366T24:00Z", "--offset=-P1Y"], "2019-365T24:00Z")
check_cli(["2020-01-30T24:00Z", "--offset=P1M"], "2020-03-01T00:00Z")
# Control: ordinary times of day are unaffected.
check_text("2020-01-30T23:59:59Z", Duration(months=1), "2020-02-29T23:59:59Z")
check_text("2020-02-29T00:00Z", Duration(years=1), "2021-02-28T00:00:00Z")

if failures:
    print("C05 violated: nominal arithmetic from a 24:00 time point is "
          "anchored on the following day")
    for line in failures:
        print("  " + line)
    sys.exit(1)
print("ok")
