#!/bin/sh
# Offline setup: nothing to build or install - the framework is pure Python
# on /venv/bin/python (3.12, sys.monitoring) and imports /repo's working tree
# afresh in every check.  This only validates the reference model and that
# the working tree imports.
cd "$(dirname "$0")" || exit 2
mkdir -p evidence replays .work
export PYTHONDONTWRITEBYTECODE=1
/venv/bin/python -m rtv.refmodel --dense || exit 1
/venv/bin/python -c "
import sys; sys.path.insert(0, '.')
from rtv import core
r = core.Repo(); print('working tree:', r.path)
"
