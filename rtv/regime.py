"""R1 - exact regime vs tolerance regime (DESIGN.md section 4)."""
from fractions import Fraction as F

from . import refmodel as R

TOL = F(1, 10**6)
SLACK = F(1, 10**9)


def is_hform(p):
    return p._minute_of_hour is None and p._second_of_minute is None


def pair_exact_pts(a, b):
    """both operands integral and re-zoning one to the other's offset stays
    in integers (a decimal-hour form cannot absorb offset minutes exactly)"""
    if not (R.tp_is_integral(a) and R.tp_is_integral(b)):
        return False
    if (is_hform(a) or is_hform(b)) and (
            R.tp_offset_minutes(a) - R.tp_offset_minutes(b)) % 60:
        return False
    return True


def add_stays_integral(p, d):
    """p + d stays in integer arithmetic: integral operands, and seconds /
    minutes are only added to points that store that unit"""
    if not (R.tp_is_integral(p) and R.dur_is_integral(d)):
        return False
    if d._weeks is not None:
        return True
    form = R.tp_form(p)
    if d._seconds and form != "hms":
        return False
    if d._minutes and form == "h":
        return False
    return True


def shape_ok(d):
    """exact Duration with only D/H/M/S, 0<=h<24, 0<=m,s<60, one sign"""
    if d._weeks is not None or d._years or d._months:
        return False
    vals = (d._days, d._hours, d._minutes, d._seconds)
    if any(v is None for v in vals):
        return False
    if all(v >= 0 for v in vals):
        sg = 1
    elif all(v <= 0 for v in vals):
        sg = -1
    else:
        return False
    return (abs(d._hours) < 24 and abs(d._minutes) < 60 and
            abs(d._seconds) < 60 and sg != 0)
