"""Child process for inputs whose cost cannot be counted in Python line
events (the C regular-expression engine): parses each given text with a CPU
time limit.  Reads JSON [{parser, cfg, text}, ...] on stdin; prints
'START <i>' before and 'DONE <i> <outcome>' after each case.  The parent
(rtv/checks/c09.py) reads how far it got."""
import json
import os
import resource
import sys


def main():
    sys.path.insert(0, os.path.dirname(os.path.dirname(
        os.path.abspath(__file__))))
    from rtv import core
    limit = int(sys.argv[1]) if len(sys.argv) > 1 else 20
    cases = json.load(sys.stdin)
    repo = core.Repo()
    P = repo.parsers
    tps = [P.TimePointParser(),
           P.TimePointParser(allow_truncated=True,
                             default_to_unknown_time_zone=True)]
    parsers = {"TimePointParser": [p.parse for p in tps],
               "DurationParser": [P.DurationParser().parse],
               "TimeRecurrenceParser": [
                   P.TimeRecurrenceParser().parse,
                   P.TimeRecurrenceParser(timepoint_parser=tps[1]).parse]}
    # CPU seconds, not wall clock: machine load cannot trigger it
    resource.setrlimit(resource.RLIMIT_CPU, (limit, limit + 5))
    for i, c in enumerate(cases):
        fns = parsers[c["parser"]]
        fn = fns[c.get("cfg", 0) % len(fns)]
        print("START %d" % i, flush=True)
        try:
            fn(c["text"])
            out = "ok"
        except ValueError:
            out = "ValueError"
        except Exception as exc:
            out = "other:" + type(exc).__name__
        print("DONE %d %s" % (i, out), flush=True)


if __name__ == "__main__":
    main()
