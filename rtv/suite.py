"""Extra workload: the repository's own test-suite executed in-process while
a check's monitors are attached to the live classes (DESIGN.md 2.3 iv).  A
monitor that fires here is either too strict or a defect the tests do not
assert - it is read before anything is relaxed."""
import contextlib
import io
import os
import sys

from . import core


def run_repo_tests(ctx, repo, select=None):
    """Run /repo's tests under the currently installed probes.  Returns the
    pytest exit code; test failures themselves are not verdicts of the check
    (the baseline has two known failing tests)."""
    import pytest
    old_cwd = os.getcwd()
    old_case = ctx.case
    ctx.case = {"op": "repo-test-suite"}
    before = sum(ctx.counters.values())
    args = ["-q", "-p", "no:cacheprovider", "-x", "--no-header",
            "-W", "ignore", "--timeout=900",
            os.path.join(core.REPO, "metomi", "isodatetime", "tests")]
    if select:
        args += ["-k", select]
    out = io.StringIO()
    try:
        os.chdir(core.REPO)
        with contextlib.redirect_stdout(out), contextlib.redirect_stderr(out):  # noqa
            code = pytest.main(args[:3] + args[4:])   # no -x: run them all
    finally:
        os.chdir(old_cwd)
        ctx.case = old_case
        repo.CALENDAR.set_mode("gregorian")
    ctx.extra["repo_suite_monitor_events"] = \
        sum(ctx.counters.values()) - before
    tail = out.getvalue().strip().splitlines()[-1:] or [""]
    ctx.extra["repo_suite_result"] = tail[0][:200]
    ctx.ev("workload.repo_suite")
    return code
