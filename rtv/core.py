"""Harness shared by every check: loading the working tree, probes, logical
step budgets, verdicts, evidence, replays, known findings, worker fan-out."""
import collections
import functools
import hashlib
import importlib
import json
import os
import random
import subprocess
import sys
import tempfile
import copy
import zlib
import time
import traceback

VERIF = os.path.dirname(os.path.dirname(os.path.abspath(__file__)))
REPO = os.path.abspath(os.environ.get("VERIF_REPO", "/repo"))
GUARD = "METOMI_ISODATETIME_VERIF"

HELD, VIOLATION, INCONCLUSIVE = 0, 1, 2


# --------------------------------------------------------------------------
# loading the code under observation

class Repo:
    """The modules of the working tree, imported fresh in this process."""

    def __init__(self):
        sys.dont_write_bytecode = True
        if sys.path[0] != REPO:
            sys.path.insert(0, REPO)
        os.environ[GUARD] = "1"
        for name in list(sys.modules):
            if name == "metomi" or name.startswith("metomi."):
                del sys.modules[name]
        self.pkg = importlib.import_module("metomi.isodatetime")
        f = os.path.abspath(self.pkg.__file__)
        if not f.startswith(REPO + os.sep):
            raise RuntimeError("metomi.isodatetime imported from %s, not "
                               "from %s" % (f, REPO))
        self.path = os.path.dirname(f)
        self.data = importlib.import_module("metomi.isodatetime.data")
        self.parsers = importlib.import_module("metomi.isodatetime.parsers")
        self.dumpers = importlib.import_module("metomi.isodatetime.dumpers")
        self.timezone = importlib.import_module(
            "metomi.isodatetime.timezone")
        self.parser_spec = importlib.import_module(
            "metomi.isodatetime.parser_spec")
        self.exceptions = importlib.import_module(
            "metomi.isodatetime.exceptions")
        self.datetimeoper = importlib.import_module(
            "metomi.isodatetime.datetimeoper")
        self.main = importlib.import_module("metomi.isodatetime.main")
        self.TimePoint = self.data.TimePoint
        self.Duration = self.data.Duration
        self.TimeZone = self.data.TimeZone
        self.TimeRecurrence = self.data.TimeRecurrence
        self.CALENDAR = self.data.CALENDAR

    def set_mode(self, mode, case=None):
        """Select calendar `mode` (canonical name).  With a case, some of
        the cases (chosen by a checksum of the case, so a replay makes the
        same choice; or case["alias"]) select the mode by another accepted
        spelling: the documented alias "360_day" etc. (a quarter of the
        non-Gregorian cases) or an upper-case / capitalised spelling, which
        Calendar.set_mode also accepts (an eighth of all cases)."""
        if case is not None:
            alias = case.get("alias") if isinstance(case, dict) else None
            if alias is None:
                alias = zlib.crc32(json.dumps(
                    case, sort_keys=True, default=str).encode()) % 8
            elif alias is True:
                alias = 0
            elif alias is False:
                alias = 7
            if alias in (0, 1) and mode != "gregorian":
                mode = mode.replace("day", "_day")
            elif alias == 2:
                mode = mode.upper() if len(mode) % 2 else mode.capitalize()
        if self.CALENDAR.mode != mode:
            self.CALENDAR.set_mode(mode)
        if case is not None and alias == 3:
            # a private Calendar object in some other mode is nobody's
            # business: the active calendar is Calendar.default()
            scratch = self.data.Calendar()
            scratch.set_mode(("360day", "365day", "gregorian")[
                len(mode) % 3])
        elif case is not None and alias == 4:
            # ... and so is a (shallow) copy of the active calendar that is
            # then switched to another mode
            scratch = copy.copy(self.CALENDAR)
            scratch.set_mode(("360day", "366day", "gregorian", "365day")[
                len(mode) % 4])

    def scratch_for(self, case):
        """for checks that select the mode themselves: the same scratch
        calendars (private object / shallow copy switched to another mode)
        for the same share of cases.  (The library's memo tables are never
        emptied: stale entries are exactly what the cache-key changes of
        section 12 leave behind.)"""
        crc = zlib.crc32(json.dumps(case, sort_keys=True,
                                    default=str).encode())
        mode = self.CALENDAR.mode
        if crc % 8 == 3:
            self.data.Calendar().set_mode(
                ("360day", "365day", "gregorian")[len(mode) % 3])
        elif crc % 8 == 4:
            copy.copy(self.CALENDAR).set_mode(
                ("360day", "366day", "gregorian", "365day")[len(mode) % 4])

    def _sub(self, base):
        """a subclass that adds nothing: its instances are values of the
        base class like any other"""
        subs = self.__dict__.setdefault("_subclasses", {})
        if base not in subs:
            # (`class PlainTimePoint(TimePoint): pass` - no __slots__ of its
            # own: the library's _copy walks `self.__slots__`)
            cls = type("Plain" + base.__name__, (base,), {})
            # importable by name, so that pickle can find it
            cls.__module__ = __name__
            globals()[cls.__name__] = cls
            subs[base] = cls
        return subs[base]

    def tp(self, kw):
        # (one case in sixteen, chosen by a checksum of the keywords)
        if zlib.crc32(repr(sorted(kw.items(), key=str)).encode()) % 16 == 5:
            return self._sub(self.TimePoint)(**kw)
        return self.TimePoint(**kw)

    def dur(self, kw):
        if zlib.crc32(repr(sorted(kw.items(), key=str)).encode()) % 16 == 5:
            return self._sub(self.Duration)(**kw)
        return self.Duration(**kw)


# --------------------------------------------------------------------------
# probes

class Probes:
    """Re-binds attributes of live classes / modules to observing wrappers
    and can undo it.  `pre(args, kwargs) -> snapshot`,
    `post(snapshot, args, kwargs, result, exc)`; exceptions raised by the
    observed function always propagate unchanged."""

    def __init__(self, ctx):
        self.ctx = ctx
        self._undo = []

    def wrap(self, owner, name, post, pre=None, always=False):
        ctx = self.ctx
        orig = owner.__dict__[name] if isinstance(owner, type) \
            else getattr(owner, name)
        raw = orig
        if isinstance(orig, (staticmethod, classmethod)):
            raise TypeError("wrap the underlying function instead")

        @functools.wraps(raw)
        def wrapper(*args, **kwargs):
            if ctx.in_oracle and not always:
                return raw(*args, **kwargs)
            snap = None
            pre_ok = True
            if pre is not None:
                ctx.in_oracle += 1
                try:
                    snap = pre(args, kwargs)
                except BudgetExceeded:
                    raise
                except Exception:
                    pre_ok = False
                    ctx.monitor_error(name)
                finally:
                    ctx.in_oracle -= 1
            try:
                result = raw(*args, **kwargs)
            except BaseException as exc:
                if not isinstance(exc, BudgetExceeded) and pre_ok:
                    ctx.in_oracle += 1
                    try:
                        post(snap, args, kwargs, None, exc)
                    except BudgetExceeded:
                        pass
                    except Exception:
                        ctx.monitor_error(name)
                    finally:
                        ctx.in_oracle -= 1
                raise
            if pre_ok:
                ctx.in_oracle += 1
                try:
                    post(snap, args, kwargs, result, None)
                except BudgetExceeded:
                    raise
                except Exception:
                    # a monitor must never disturb the observed program
                    ctx.monitor_error(name)
                finally:
                    ctx.in_oracle -= 1
            return result

        wrapper.__rtv_orig__ = raw
        setattr(owner, name, wrapper)
        self._undo.append((owner, name, orig))
        return wrapper

    def set(self, owner, name, value):
        had = name in (owner.__dict__ if isinstance(owner, type)
                       else vars(owner))
        orig = getattr(owner, name, None)
        setattr(owner, name, value)
        self._undo.append((owner, name, orig if had else _DELETE))

    def undo(self):
        for owner, name, orig in reversed(self._undo):
            if orig is _DELETE:
                try:
                    delattr(owner, name)
                except AttributeError:
                    pass
            else:
                setattr(owner, name, orig)
        self._undo = []


_DELETE = object()


# --------------------------------------------------------------------------
# logical step budgets (sys.monitoring LINE events in repository code)

class BudgetExceeded(BaseException):
    pass


class Budget:
    TOOL = 4  # free tool id on CPython 3.12 (0-3,5 are named)

    def __init__(self, repo_path):
        self.repo_path = repo_path
        self.count = 0
        self.limit = 0
        self.fired = False
        self.active = False
        self.max_seen = 0
        self.total_calls = 0
        mon = sys.monitoring
        try:
            mon.use_tool_id(self.TOOL, "rtv-budget")
        except ValueError:
            pass
        mon.register_callback(self.TOOL, mon.events.LINE, self._on_line)

    def _on_line(self, code, line):
        if not code.co_filename.startswith(self.repo_path):
            return sys.monitoring.DISABLE
        if not self.active:
            return None
        self.count += 1
        if self.count > self.limit and not self.fired:
            self.fired = True
            raise BudgetExceeded(self.limit)
        return None

    def run(self, limit, fn, *args, **kwargs):
        """Run fn under a budget of `limit` line events in repository code.
        Returns (result, steps); raises BudgetExceeded on overrun, any other
        exception of fn propagates."""
        mon = sys.monitoring
        self.count = 0
        self.limit = limit
        self.fired = False
        self.active = True
        self.total_calls += 1
        mon.set_events(self.TOOL, mon.events.LINE)
        try:
            return fn(*args, **kwargs), self.count
        finally:
            self.active = False
            mon.set_events(self.TOOL, 0)
            if self.count > self.max_seen and not self.fired:
                self.max_seen = self.count


# --------------------------------------------------------------------------
# context of one check run

def h64(key):
    return int.from_bytes(
        hashlib.blake2b(repr(key).encode(), digest_size=8).digest(), "big")


class Ctx:
    MAX_REPLAYS = int(__import__("os").environ.get("VERIF_MAX_REPLAYS", "20"))
    MAX_PER_KIND = int(__import__("os").environ.get("VERIF_MAX_PER_KIND", "3"))

    def __init__(self, pid, tier, seed, worker=0, nworkers=1):
        self.pid = pid
        self.tier = tier
        self.seed = seed
        self.worker = worker
        self.nworkers = nworkers
        self.rng = random.Random("%s/%d/%d" % (pid, seed, worker))
        self.counters = collections.Counter()      # monitor evaluations
        self.classes = collections.Counter()       # boundary classes seen
        self.targets = set()
        self.distinct = set()
        self.samples = []
        self.violations = []                        # dicts
        self.viol_kinds = collections.Counter()
        self.known = collections.Counter()
        self.known_examples = {}
        self.notes = []
        self.extra = {}
        self.in_oracle = 0
        self.case = None
        self.case_index = 0
        self.t0 = time.time()
        self.inconclusive = []
        self.classifiers = {}                       # finding id -> fn
        self.listed_findings = {}                   # finding id -> what

    # -- observation accounting
    def ev(self, name, n=1):
        self.counters[name] += n

    def cls(self, name, n=1):
        self.classes[name] += n

    def target(self, *names):
        self.targets.update(names)

    def nontrivial(self, key):
        if len(self.distinct) < 2_000_000:
            self.distinct.add(h64(key))

    def sample(self, obj, limit=12):
        if len(self.samples) < limit:
            self.samples.append(obj)

    def mine(self, i):
        """sweep partitioning between workers"""
        return i % self.nworkers == self.worker

    def elapsed(self):
        return time.time() - self.t0

    # -- verdicts
    def violation(self, kind, message, **detail):
        """Report that the oracle refuted the property on the current case."""
        wit = {"kind": kind, "message": message, "case": self.case,
               "detail": _jsonable(detail)}
        for fid, fn in self.classifiers.items():
            if fid not in self.listed_findings:
                continue
            try:
                hit = fn(kind, self.case, detail)
            except Exception:
                hit = False
            if hit:
                self.known[fid] += 1
                self.known_examples.setdefault(fid, wit)
                return
        self.viol_kinds[kind] += 1
        if (self.viol_kinds[kind] <= self.MAX_PER_KIND and
                len(self.violations) < self.MAX_REPLAYS):
            try:
                wit["stack"] = traceback.format_stack(limit=14)[:-1]
            except RecursionError:
                wit["stack"] = ["<stack too deep to format>"]
            self.violations.append(wit)

    def monitor_error(self, name):
        """an oracle itself raised: never a verdict about the code; the run
        ends INCONCLUSIVE and the traceback is kept"""
        self.counters["monitor.errors"] += 1
        if len(self.notes) < 5:
            self.notes.append("monitor on %s raised: %s" % (
                name, traceback.format_exc(limit=-3).strip()[-400:]))
        msg = "a monitor raised an exception (harness defect)"
        if msg not in self.inconclusive:
            self.inconclusive.append(msg)

    def inconclusive_if(self, cond, reason):
        if cond:
            self.inconclusive.append(reason)

    def to_json(self):
        return {
            "counters": dict(self.counters), "classes": dict(self.classes),
            "targets": sorted(self.targets),
            "distinct": sorted(self.distinct), "samples": self.samples,
            "violations": self.violations,
            "viol_kinds": dict(self.viol_kinds), "known": dict(self.known),
            "known_examples": self.known_examples, "notes": self.notes,
            "extra": self.extra, "inconclusive": self.inconclusive,
            "wall_s": self.elapsed(),
        }


def _jsonable(x):
    try:
        json.dumps(x)
        return x
    except (TypeError, ValueError):
        if isinstance(x, dict):
            return {str(k): _jsonable(v) for k, v in x.items()}
        if isinstance(x, (list, tuple, set, frozenset)):
            return [_jsonable(v) for v in x]
        return repr(x)


# --------------------------------------------------------------------------
# known findings file

def read_known_findings():
    """known_findings.txt lines:
         KNOWN-FINDING: property=<id> classifier=<name> <what fails>
         fixed: property=<id> <commit> <what failed>
       Only KNOWN-FINDING lines suppress anything."""
    listed = {}
    path = os.path.join(VERIF, "known_findings.txt")
    if os.path.exists(path):
        for line in open(path):
            line = line.strip()
            if not line.startswith("KNOWN-FINDING:"):
                continue
            parts = line.split()
            pid = fid = None
            rest = []
            for w in parts[1:]:
                if w.startswith("property=") and pid is None:
                    pid = w.split("=", 1)[1]
                elif w.startswith("classifier=") and fid is None:
                    fid = w.split("=", 1)[1]
                else:
                    rest.append(w)
            if pid and fid:
                listed[fid] = (pid, " ".join(rest))
    return listed


# --------------------------------------------------------------------------
# running a check

def load_check(pid):
    return importlib.import_module("rtv.checks.%s" % pid.lower())


def run_worker(pid, tier, seed, worker, nworkers, replay_case=None):
    """Run the workload of one worker in this process; returns Ctx."""
    from . import refmodel
    ctx = Ctx(pid, tier, seed, worker, nworkers)
    fails = refmodel.self_validate()
    if fails:
        ctx.inconclusive.append("reference self-validation failed: %s"
                                % fails[:3])
        return ctx
    mod = load_check(pid)
    repo = Repo()
    ctx.repo = repo
    listed = read_known_findings()
    ctx.listed_findings = {fid: what for fid, (p, what) in listed.items()
                           if p == pid}
    ctx.classifiers = dict(getattr(mod, "CLASSIFIERS", {}))
    probes = Probes(ctx)
    ctx.probes = probes
    try:
        mod.install(ctx, repo, probes)
        if replay_case is not None:
            ctx.case = replay_case
            mod.run_case(ctx, repo, replay_case)
        else:
            # deterministic replay of each listed finding's example
            for fid, case in getattr(mod, "FINDING_EXAMPLES", {}).items():
                if fid in ctx.listed_findings and worker == 0:
                    ctx.case = case
                    before = ctx.known[fid]
                    try:
                        mod.run_case(ctx, repo, case)
                    except Exception as exc:  # pragma: no cover
                        ctx.notes.append("example %s raised %r" % (fid, exc))
                    if ctx.known[fid] == before:
                        ctx.notes.append("STALE-KNOWN-FINDING %s" % fid)
            try:
                mod.workload(ctx, repo)
            except BudgetExceeded:
                raise
            except Exception as exc:
                # an exception escaping the code under observation on a
                # workload case (all cases are valid by construction)
                ctx.violation(
                    "workload.raised", "the workload case raised %s: %s\n%s"
                    % (type(exc).__name__, exc,
                       "".join(traceback.format_exc(limit=-6))),
                    exc=type(exc).__name__)
            if (tier == "thorough" and worker == 0 and
                    getattr(mod, "RUN_REPO_SUITE", False)):
                from . import suite
                suite.run_repo_tests(ctx, repo)
        if hasattr(mod, "finish"):
            mod.finish(ctx, repo)
    finally:
        probes.undo()
    return ctx


def merge(results):
    out = {"counters": collections.Counter(),
           "classes": collections.Counter(), "targets": set(),
           "distinct": set(), "samples": [], "violations": [],
           "viol_kinds": collections.Counter(),
           "known": collections.Counter(), "known_examples": {},
           "notes": [], "extra": {}, "inconclusive": [], "wall": []}
    for r in results:
        out["counters"].update(r["counters"])
        out["classes"].update(r["classes"])
        out["targets"].update(r["targets"])
        out["distinct"].update(r["distinct"])
        for s in r["samples"]:
            if len(out["samples"]) < 16:
                out["samples"].append(s)
        out["violations"].extend(r["violations"])
        out["viol_kinds"].update(r["viol_kinds"])
        out["known"].update(r["known"])
        for k, v in r["known_examples"].items():
            out["known_examples"].setdefault(k, v)
        out["notes"].extend(r["notes"])
        for k, v in r["extra"].items():
            if isinstance(v, (int, float)) and not isinstance(v, bool):
                out["extra"][k] = out["extra"].get(k, 0) + v
            elif isinstance(v, list):
                out["extra"].setdefault(k, [])
                out["extra"][k] = (out["extra"][k] + v)[:40]
            else:
                out["extra"].setdefault(k, v)
        out["inconclusive"].extend(r["inconclusive"])
        out["wall"].append(r["wall_s"])
    return out


def fan_out(pid, tier, seed, nworkers, timeout):
    """Run nworkers subprocesses (never multiprocessing.Pool)."""
    work = os.path.join(VERIF, ".work")
    os.makedirs(work, exist_ok=True)
    tmp = tempfile.mkdtemp(prefix="%s-" % pid, dir=work)
    procs = []
    env = dict(os.environ)
    env["PYTHONHASHSEED"] = "0"
    for k in range(nworkers):
        out = os.path.join(tmp, "w%d.json" % k)
        cmd = [sys.executable, "-m", "rtv.run", pid, tier,
               "--seed", str(seed), "--worker", "%d/%d" % (k, nworkers),
               "--out", out]
        procs.append((k, out, subprocess.Popen(
            cmd, cwd=VERIF, env=env, stdout=subprocess.PIPE,
            stderr=subprocess.STDOUT)))
    results = []
    problems = []
    deadline = time.time() + timeout
    for k, out, proc in procs:
        try:
            stdout, _ = proc.communicate(
                timeout=max(1, deadline - time.time()))
        except subprocess.TimeoutExpired:
            proc.kill()
            stdout, _ = proc.communicate()
            problems.append("worker %d hit the wall-clock watchdog" % k)
            continue
        if not os.path.exists(out):
            problems.append("worker %d produced no result (exit %s): %s" % (
                k, proc.returncode, stdout.decode(errors="replace")[-600:]))
            continue
        with open(out) as fh:
            results.append(json.load(fh))
    for f in os.listdir(tmp):
        os.unlink(os.path.join(tmp, f))
    os.rmdir(tmp)
    merged = merge(results)
    merged["inconclusive"].extend(problems)
    return merged


def finish(pid, tier, seed, merged, mod, t0):
    """Print verdict lines, write evidence and replays; return exit code."""
    # VERIF_OUT redirects evidence/replays (used when trying the checks on
    # seeded changes, so that committed evidence is never overwritten)
    out_base = os.environ.get("VERIF_OUT") or VERIF
    os.makedirs(os.path.join(out_base, "evidence"), exist_ok=True)
    os.makedirs(os.path.join(out_base, "replays"), exist_ok=True)
    listed = {fid: what for fid, (p, what) in read_known_findings().items()
              if p == pid}
    # inconclusive conditions shared by all checks
    missing = sorted(set(merged["targets"]) - set(
        k for k, v in merged["classes"].items() if v > 0))
    if missing:
        merged["inconclusive"].append(
            "targeted classes never observed: %s" % missing[:8])
    mins = dict(getattr(mod, "MIN_EVALS", {}))
    if tier == "thorough":
        # random workloads scale with the workers; exhaustive grids do not
        mins = {k: v * 4 for k, v in mins.items()}
        mins.update(getattr(mod, "MIN_EVALS_THOROUGH", {}))
    for name, minimum in mins.items():
        if merged["counters"].get(name, 0) < minimum:
            merged["inconclusive"].append(
                "monitor %s evaluated %d < %d times" % (
                    name, merged["counters"].get(name, 0), minimum))
    if hasattr(mod, "finish_merged"):
        mod.finish_merged(merged, tier)
    if len(merged["distinct"]) < 2:
        merged["inconclusive"].append("fewer than 2 distinct cases")

    nviol = sum(merged["viol_kinds"].values())
    replay_paths = []
    for i, wit in enumerate(merged["violations"][:Ctx.MAX_REPLAYS]):
        path = os.path.join(out_base, "replays",
                            "%s-%d-%d.json" % (pid, seed, i))
        with open(path, "w") as fh:
            json.dump({"property": pid, "seed": seed, "tier": tier,
                       **wit}, fh, indent=1, default=repr)
        replay_paths.append(path)
        print("VIOLATION property=%s replay=%s" % (pid, path))
        print("  kind=%s %s" % (wit["kind"], wit["message"][:300]))
    for kind, n in sorted(merged["viol_kinds"].items()):
        print("  violation kind %s: %d observation(s)" % (kind, n))
    for fid, n in sorted(merged["known"].items()):
        print("KNOWN-FINDING: property=%s %s [classifier=%s, %d "
              "observation(s) this run]" % (pid, listed.get(fid, ""), fid, n))
    for note in merged["notes"][:20]:
        print("NOTE: %s" % note)

    if nviol:
        code = VIOLATION
    elif merged["inconclusive"]:
        code = INCONCLUSIVE
        for r in merged["inconclusive"][:10]:
            print("INCONCLUSIVE property=%s reason=%s" % (pid, r))
    else:
        code = HELD

    evals = sum(merged["counters"].get(k, 0)
                for k in getattr(mod, "DECIDING", [])) or \
        sum(merged["counters"].values())
    cov = {
        "evaluations": int(evals),
        "distinct_nontrivial": len(merged["distinct"]),
        "rule": getattr(mod, "RULE", ""),
        "samples": merged["samples"][:12],
        "monitor_counts": dict(sorted(merged["counters"].items())),
        "classes_targeted": len(merged["targets"]),
        "classes_observed": dict(sorted(merged["classes"].items())),
        "known_findings_seen": dict(merged["known"]),
        "verdict": {0: "held", 1: "violation", 2: "inconclusive"}[code],
        "inconclusive_reasons": merged["inconclusive"][:10],
        "workers": len(merged["wall"]),
    }
    for k, v in merged["extra"].items():
        cov.setdefault(k, v)
    if hasattr(mod, "EXHAUSTIVE") and mod.EXHAUSTIVE.get(tier):
        cov["exhaustive"] = True
        cov["exhaustive_space"] = mod.EXHAUSTIVE[tier]
    ev = {
        "property_id": pid, "tier": tier, "seed": seed,
        "level": "exploration", "coverage": cov,
        "assumptions": getattr(mod, "ASSUMPTIONS", []) + [
            "reference model rtv/refmodel.py (self-validated against "
            "datetime for years 1-9999 and 400-year periodicity at start)",
            "CPython integer/Fraction arithmetic",
        ],
        "wall_s": round(time.time() - t0, 2),
        "violations": int(nviol),
    }
    with open(os.path.join(out_base, "evidence", "%s.json" % pid),
              "w") as fh:
        json.dump(ev, fh, indent=1, default=repr)
    print("%s %s tier=%s seed=%d evaluations=%d distinct_nontrivial=%d "
          "classes=%d/%d wall=%.1fs" % (
              pid, cov["verdict"].upper(), tier, seed, evals,
              len(merged["distinct"]),
              len(set(merged["targets"]) & set(merged["classes"])),
              len(merged["targets"]), time.time() - t0))
    return code
