"""A deliberately small battery of calendar-dependent computations (few
keys, so every memoised entry is requested under every mode many times).

`python -m rtv.battery --mode M` prints the JSON table {item: result} of a
fresh process that only ever used mode M (the single-mode oracle of C15)."""
import contextlib
import io
import json
import os
import sys

YEARS = (1900, 2000, 2001, 2004, 2100, 0, -1)
_PERSIST = {}


def items(repo):
    """-> ordered list of (name, thunk); every result is a JSON-able value;
    library ValueErrors are results too ("error:<type>")"""
    D = repo.data
    TP, Dur = repo.TimePoint, repo.Duration
    out = []

    def add(name, fn):
        out.append((name, fn))

    for y in YEARS:
        add("len/%d" % y, lambda y=y: [
            D.get_days_in_year(y), D.get_weeks_in_year(y),
            [D.get_days_in_month(m, y) for m in (1, 2, 12)],
            list(D.get_calendar_date_week_date_start(y)),
            list(D.get_ordinal_date_week_date_start(y))])
        add("conv/%d" % y, lambda y=y: [
            list(D.get_week_date_from_calendar_date(y, 2, 28)),
            list(D.get_ordinal_date_from_calendar_date(y, 12, 30)),
            list(D.get_calendar_date_from_ordinal_date(y, 60)),
            list(D.get_calendar_date_from_week_date(y, 9, 3)),
            list(D.get_week_date_from_ordinal_date(y, 359)),
            list(D.get_ordinal_date_from_week_date(y, 50, 7))])
    add("range", lambda: [D.get_days_in_year_range(1900, 2004),
                          D.get_days_in_year_range(-1, 2100),
                          D.get_days_since_1_ad(2000),
                          D.get_days_in_month(2), D.get_days_in_month(2, None),
                          len(D.iter_months_days(2000)),
                          len(D.iter_months_days(2001, 2, 27)),
                          len(D.iter_months_days(1900, in_reverse=True))])

    def tp(**kw):
        return TP(**kw)

    def key(p):
        return [p.year, p.month_of_year, p.day_of_month, p.day_of_year,
                p.week_of_year, p.day_of_week, p.hour_of_day]
    add("arith/feb+2d", lambda: key(
        tp(year=2000, month_of_year=2, day_of_month=28) + Dur(days=2)))
    add("arith/feb01+1m", lambda: key(
        tp(year=2001, month_of_year=1, day_of_month=30) + Dur(months=1)))
    add("arith/ord+3d", lambda: key(
        tp(year=2004, day_of_year=359) + Dur(days=3)))
    add("arith/week+10d", lambda: key(
        tp(year=2004, week_of_year=50, day_of_week=7) + Dur(days=10)))
    add("arith/-400d", lambda: key(
        tp(year=2001, month_of_year=3, day_of_month=1) - Dur(days=400)))
    add("arith/+1y", lambda: key(
        tp(year=2000, day_of_year=360) + Dur(years=1)))
    add("arith/diff", lambda: [
        (tp(year=2004, month_of_year=3, day_of_month=1) -
         tp(year=2004, month_of_year=2, day_of_month=1)).days,
        (tp(year=2100, month_of_year=1, day_of_month=1) -
         tp(year=1900, day_of_year=1)).days])
    add("arith/tz", lambda: key(
        tp(year=2000, month_of_year=2, day_of_month=28, hour_of_day=23)
        .to_time_zone(repo.TimeZone(hours=5, minutes=30))))
    add("arith/hash-eq", lambda: [
        tp(year=2001, month_of_year=3, day_of_month=1) ==
        tp(year=2001, day_of_year=60),
        tp(year=2000, month_of_year=12, day_of_month=30) <
        tp(year=2000, week_of_year=52, day_of_week=5)])

    def valid(**kw):
        try:
            TP(**kw)
            return "ok"
        except ValueError as exc:
            return "error:" + type(exc).__name__
    add("valid", lambda: [
        valid(year=2001, month_of_year=2, day_of_month=29),
        valid(year=2000, month_of_year=2, day_of_month=30),
        valid(year=2000, month_of_year=1, day_of_month=31),
        valid(year=2001, day_of_year=366), valid(year=2001, day_of_year=361),
        valid(year=2004, week_of_year=53, day_of_week=1),
        valid(year=2000, week_of_year=52, day_of_week=1)])

    P = repo.parsers

    def rec(expr, n):
        r = P.TimeRecurrenceParser(P.TimePointParser(
            assumed_time_zone=(0, 0))).parse(expr)
        res = []
        for p in r:
            res.append(str(p))
            if len(res) >= n:
                break
        return res
    # one recurrence object kept for the whole process and indexed at
    # growing positions: whatever it remembers between calls must not depend
    # on the mode that was active then
    def persistent():
        obj = _PERSIST.get(id(repo))
        if obj is None:
            obj = P.TimeRecurrenceParser(P.TimePointParser(
                assumed_time_zone=(0, 0))).parse("R/2021-02-26T00Z/P1D")
            _PERSIST[id(repo)] = obj
        return obj
    for k in (1, 3, 4, 6, 9):
        add("recidx/%d" % k, lambda k=k: str(persistent()[k]))
    # one long-lived DateTimeOperator with a reference point: what "ref"
    # means is decided by the calendar active when it is asked for

    def oper_ref(which):
        # (constructing an operator selects a calendar: keep the active one)
        def O(**kw):
            return repo.datetimeoper.DateTimeOperator(
                calendar_mode=repo.CALENDAR.mode, **kw)
        key_ = (id(repo), "oper", which)
        op = _PERSIST.get(key_)
        if op is None:
            op = {"epoch": lambda: O(parse_format="%s",
                                     ref_point_str="1000000000",
                                     utc_mode=True),
                  "feb30": lambda: O(ref_point_str="20130230T00Z"),
                  "zone": lambda: O(ref_point_str="2004-02-29T23:00-05:00",
                                    utc_mode=True)}[which]()
            _PERSIST[key_] = op
        tp, _ = op.date_parse("ref")
        return str(op.date_shift(tp, "P1D"))
    for which in ("epoch", "feb30", "zone"):
        add("operref/" + which, lambda which=which: oper_ref(which))

    # an iterator asked for at the previous call and never advanced is walked
    # now (and the next one is asked for): its points are those of the
    # calendar active while it is walked
    def pending_iter():
        key_ = (id(repo), "pending-iter")

        def O(**kw):
            return repo.datetimeoper.DateTimeOperator(
                calendar_mode=repo.CALENDAR.mode, **kw)
        op = _PERSIST.get((id(repo), "iter-oper"))
        if op is None:
            op = _PERSIST[(id(repo), "iter-oper")] = O()
        it = _PERSIST.get(key_)
        if it is None:
            it = op.iter_recurrence_str("R3/20200227T00Z/P2D")
        try:
            out = [str(p) for p in it]
        finally:
            _PERSIST[key_] = op.iter_recurrence_str("R3/20200227T00Z/P2D")
        return out
    add("operiter/pending", pending_iter)
    # the last week of a long week-year moved by whole years (the target
    # year's number of weeks decides, in the calendar active now)

    def week_plus_years(y, w, n):
        try:
            return str(TP(year=y, week_of_year=w, day_of_week=1) +
                       Dur(years=n))
        except ValueError as exc:
            return "error:" + type(exc).__name__
    for y, w, n in ((2015, 53, 5), (2019, 53, 1), (2020, 53, 1),
                    (2009, 53, 11), (2019, 52, 1), (2015, 53, -11),
                    (1997, 52, -1)):
        add("weekyears/%d-W%d%+d" % (y, w, n),
            lambda y=y, w=w, n=n: week_plus_years(y, w, n))
    add("rec/daily", lambda: rec("R5/2000-02-27T00Z/P1D", 5))
    add("rec/monthly", lambda: rec("R3/2001-01-30T00Z/P1M", 3))
    add("rec/reverse", lambda: rec("R/P1W/2004-01-05T00Z", 3))
    add("rec/ordinal", lambda: rec("R4/2000-358T00Z/P3D", 4))

    def parse(expr):
        try:
            p = P.TimePointParser(assumed_time_zone=(0, 0)).parse(expr)
            return [str(p), str(p.to_week_date()), str(p.to_ordinal_date())]
        except ValueError as exc:
            return "error:" + type(exc).__name__
    # instants counted from the Unix epoch (calendar arithmetic from 1970)
    for n in (951782400, 1396429200, 68169600, -86400 * 400):
        add("epoch/props/%d" % n, lambda n=n: [
            D.get_timepoint_properties_from_seconds_since_unix_epoch(n).get(k)
            for k in ("year", "month_of_year", "day_of_month", "day_of_year",
                      "week_of_year", "day_of_week", "hour_of_day")])
    add("epoch/point", lambda: key(
        D.get_timepoint_from_seconds_since_unix_epoch(1078099200).to_utc()))
    add("epoch/strptime", lambda: key(P.TimePointParser(
        assumed_time_zone=(0, 0)).strptime("951782400", "%s").to_utc()))
    add("epoch/seconds", lambda: [
        tp(year=2000, month_of_year=3, day_of_month=1, hour_of_day=0,
           time_zone_hour=0, time_zone_minute=0).seconds_since_unix_epoch,
        tp(year=2004, day_of_year=360, hour_of_day=0, time_zone_hour=0,
           time_zone_minute=0).seconds_since_unix_epoch,
        tp(year=1969, week_of_year=10, day_of_week=2, hour_of_day=0,
           time_zone_hour=0, time_zone_minute=0).seconds_since_unix_epoch])
    add("dump/strftime", lambda: [
        tp(year=2000, day_of_year=60, hour_of_day=6, time_zone_hour=0,
           time_zone_minute=0).strftime("%Y-%m-%d %j %s"),
        tp(year=2001, week_of_year=9, day_of_week=4, hour_of_day=6,
           time_zone_hour=0, time_zone_minute=0).strftime("%F %j")])
    add("dump/format", lambda: [
        repo.dumpers.TimePointDumper().dump(
            tp(year=2000, month_of_year=2, day_of_month=28, hour_of_day=23,
               time_zone_hour=0, time_zone_minute=0), fmt)
        for fmt in ("CCYY-DDDThh+0530", "CCYY-Www-DThhZ", "CCYYMMDDThh-0100")])
    add("parse/feb30", lambda: parse("2000-02-30T00Z"))
    add("parse/doy360", lambda: parse("2000-360T12Z"))
    add("parse/w52", lambda: parse("2001-W52-7T00Z"))
    add("parse/dec31", lambda: parse("2001-12-31T00Z"))
    return out


CLI_ITEMS = [
    ("cli/shift", ["2000-02-28T00:00:00Z", "--offset", "P2D"]),
    ("cli/shift-month", ["20010130T0000Z", "--offset=P1M"]),
    ("cli/diff", ["2000-02-01T00Z", "2000-03-01T00Z"]),
    ("cli/total", ["2001-01-01T00Z", "2002-01-01T00Z", "--as-total", "H"]),
    ("cli/rec", ["R3/2000-02-28T00Z/P1D", "--max=3"]),
    ("cli/format", ["2000-12-30T00Z", "-f", "CCYY-DDD", "--offset", "P1D"]),
    ("cli/ref", ["ref", "--ref", "2000-02-28T00:00:00Z", "--offset", "P2D"]),
    ("cli/ref-diff", ["ref", "2000-03-01T00Z", "-R", "20000201T00Z"]),
    ("cli/epoch", ["--parse-format=%s", "951782400", "--utc",
                   "--print-format=CCYY-MM-DDThh"]),
    ("cli/print-epoch", ["2000-03-01T00Z", "--print-format=%s %j"]),
]


def run_cli(repo, argv, mode_opt=None, env_mode=None):
    """in-process CLI call; returns stdout text or 'exit:<message>'"""
    args = list(argv)
    if mode_opt:
        args += ["--calendar", mode_opt]
    old = os.environ.pop("ISODATETIMECALENDAR", None)
    if env_mode:
        os.environ["ISODATETIMECALENDAR"] = env_mode
    buf = io.StringIO()
    stdin = sys.stdin
    sys.stdin = io.StringIO("")
    try:
        with contextlib.redirect_stdout(buf):
            try:
                repo.main.main(args)
            except SystemExit as exc:
                return "exit:%s" % (exc.code,)
        return buf.getvalue()
    finally:
        sys.stdin = stdin
        os.environ.pop("ISODATETIMECALENDAR", None)
        if old is not None:
            os.environ["ISODATETIMECALENDAR"] = old


def table(repo, mode):
    """results of a process that only ever uses `mode`"""
    repo.CALENDAR.set_mode(mode)
    res = {}
    for name, fn in items(repo):
        try:
            res[name] = fn()
        except ValueError as exc:
            res[name] = "error:" + type(exc).__name__
    for name, argv in CLI_ITEMS:
        res[name] = run_cli(repo, argv, mode_opt=mode)
    return res


if __name__ == "__main__":
    sys.path.insert(0, os.path.dirname(os.path.dirname(
        os.path.abspath(__file__))))
    from rtv import core
    mode = sys.argv[sys.argv.index("--mode") + 1]
    repo = core.Repo()
    print(json.dumps(table(repo, mode)))
