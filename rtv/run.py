"""CLI:  python -m rtv.run <Cxx> [quick|thorough] [--seed N]
         python -m rtv.run replay <path>
"""
import json
import os
import sys
import time

from . import core

THOROUGH_WORKERS = int(os.environ.get("VERIF_WORKERS", "16"))
THOROUGH_TIMEOUT = int(os.environ.get("VERIF_TIMEOUT", "3000"))


def main(argv):
    if not argv:
        print(__doc__)
        return 2
    if argv[0] == "replay":
        path = argv[1]
        with open(path) as fh:
            wit = json.load(fh)
        pid = wit["property"]
        ctx = core.run_worker(pid, "quick", wit.get("seed", 0), 0, 1,
                              replay_case=wit["case"])
        res = ctx.to_json()
        for v in res["violations"]:
            print("VIOLATION property=%s replay=%s" % (pid, path))
            print("  kind=%s %s" % (v["kind"], v["message"]))
        for fid, n in res["known"].items():
            print("KNOWN-FINDING: property=%s classifier=%s" % (pid, fid))
        if not res["violations"]:
            print("replay: no violation observed on %s" % core.REPO)
        return 1 if res["violations"] else 0

    pid = argv[0].upper()
    tier = os.environ.get("VERIF_TIER", "quick")
    seed = int(os.environ.get("VERIF_SEED", "0") or 0)
    worker = None
    out = None
    i = 1
    while i < len(argv):
        a = argv[i]
        if a in ("quick", "thorough"):
            tier = a
        elif a == "--seed":
            i += 1
            seed = int(argv[i])
        elif a == "--worker":
            i += 1
            k, n = argv[i].split("/")
            worker = (int(k), int(n))
        elif a == "--out":
            i += 1
            out = argv[i]
        i += 1

    t0 = time.time()
    # generous wall-clock watchdog: firing is INCONCLUSIVE, never a verdict
    import faulthandler
    wd = int(os.environ.get("VERIF_WATCHDOG",
                            "900" if tier == "quick" else "2700"))
    faulthandler.dump_traceback_later(wd, exit=True)
    if worker is not None:
        ctx = core.run_worker(pid, tier, seed, worker[0], worker[1])
        with open(out, "w") as fh:
            json.dump(ctx.to_json(), fh, default=repr)
        return 0

    mod = core.load_check(pid)
    if tier == "thorough" and THOROUGH_WORKERS > 1:
        merged = core.fan_out(pid, tier, seed, THOROUGH_WORKERS,
                              THOROUGH_TIMEOUT)
    else:
        ctx = core.run_worker(pid, tier, seed, 0, 1)
        merged = core.merge([json.loads(json.dumps(ctx.to_json(),
                                                   default=repr))])
    return core.finish(pid, tier, seed, merged, mod, t0)


if __name__ == "__main__":
    sys.exit(main(sys.argv[1:]))
