"""Independent reference model for the mathematics behind properties C01-C20.

Never imports the repository.  Everything is closed-form integer / Fraction
arithmetic over a day number ("rd": days since 0001-01-01 of the mode's
calendar, which is day 0).  The repository iterates day by day over cached
month tables, so a shared mistake is unlikely.

The model reads TimePoint / Duration objects only through attribute access
(duck typing); it does not call any of their methods.
"""
from fractions import Fraction as F

MODES = ("gregorian", "360day", "365day", "366day")
SPELLINGS = {
    "gregorian": "gregorian",
    "360day": "360day", "360_day": "360day",
    "365day": "365day", "365_day": "365day",
    "366day": "366day", "366_day": "366day",
}

M360 = (30,) * 12
M365 = (31, 28, 31, 30, 31, 30, 31, 31, 30, 31, 30, 31)
M366 = (31, 29, 31, 30, 31, 30, 31, 31, 30, 31, 30, 31)

SECONDS_IN_DAY = 86400


def canon(mode):
    if mode is None or mode == "":
        return "gregorian"
    return SPELLINGS[str(mode).lower()]


def greg_leap(y):
    return (y % 4 == 0 and y % 100 != 0) or y % 400 == 0


def month_lengths(mode, y):
    if mode == "gregorian":
        return M366 if greg_leap(y) else M365
    if mode == "360day":
        return M360
    if mode == "365day":
        return M365
    if mode == "366day":
        return M366
    raise KeyError(mode)


def year_len(mode, y):
    if mode == "gregorian":
        return 366 if greg_leap(y) else 365
    return {"360day": 360, "365day": 365, "366day": 366}[mode]


def month_len(mode, y, m):
    return month_lengths(mode, y)[m - 1]


def days_before_year(mode, y):
    """Days from 0001-01-01 to y-01-01 (negative for y < 1)."""
    p = y - 1
    if mode == "gregorian":
        return 365 * p + p // 4 - p // 100 + p // 400
    return year_len(mode, 1) * p


def days_in_year_range(mode, a, b):
    """Inclusive; 0 when a > b."""
    if a > b:
        return 0
    return days_before_year(mode, b + 1) - days_before_year(mode, a)


def ymd_to_doy(mode, y, m, d):
    return sum(month_lengths(mode, y)[:m - 1]) + d


def doy_to_md(mode, y, doy):
    for i, n in enumerate(month_lengths(mode, y)):
        if doy <= n:
            return i + 1, doy
        doy -= n
    raise ValueError("doy out of range")


def ymd_to_rd(mode, y, m, d):
    return days_before_year(mode, y) + ymd_to_doy(mode, y, m, d) - 1


def ord_to_rd(mode, y, doy):
    return days_before_year(mode, y) + doy - 1


def rd_to_ord(mode, rd):
    if mode == "gregorian":
        # estimate then correct; correctness rests on days_before_year only
        y = (rd * 400) // 146097 + 1
    else:
        y = rd // year_len(mode, 1) + 1
    while days_before_year(mode, y) > rd:
        y -= 1
    while days_before_year(mode, y + 1) <= rd:
        y += 1
    return y, rd - days_before_year(mode, y) + 1


def rd_to_ymd(mode, rd):
    y, doy = rd_to_ord(mode, rd)
    m, d = doy_to_md(mode, y, doy)
    return y, m, d


_REF_MONDAY = {}


def weekday(mode, rd):
    """1 = Monday ... 7 = Sunday; Monday anchored at 2000-01-03 in every
    mode (the library's anchor, and C03 asks for continuity)."""
    ref = _REF_MONDAY.get(mode)
    if ref is None:
        ref = _REF_MONDAY[mode] = ymd_to_rd(mode, 2000, 1, 3)
    return (rd - ref) % 7 + 1


def week_start(mode, wy):
    """rd of the Monday of week 1 of week-year wy: the week containing
    4 January."""
    jan4 = ymd_to_rd(mode, wy, 1, 4)
    return jan4 - (weekday(mode, jan4) - 1)


def weeks_in_year(mode, wy):
    return (week_start(mode, wy + 1) - week_start(mode, wy)) // 7


def week_to_rd(mode, wy, w, d):
    return week_start(mode, wy) + (w - 1) * 7 + (d - 1)


def rd_to_week(mode, rd):
    y, _ = rd_to_ord(mode, rd)
    for wy in (y + 1, y, y - 1):
        ws = week_start(mode, wy)
        if rd >= ws:
            k = rd - ws
            return wy, k // 7 + 1, k % 7 + 1
    raise AssertionError("unreachable")


# --------------------------------------------------------------------------
# validity of field tuples

def valid_ymd(mode, y, m, d):
    return 1 <= m <= 12 and 1 <= d <= month_len(mode, y, m)


def valid_ord(mode, y, doy):
    return 1 <= doy <= year_len(mode, y)


def valid_week(mode, wy, w, d):
    return 1 <= w <= weeks_in_year(mode, wy) and 1 <= d <= 7


# --------------------------------------------------------------------------
# reading the library's objects (duck typed, slots only)

def _isint(x):
    return isinstance(x, int) and not isinstance(x, bool)


def tp_rep(p):
    if p._month_of_year is not None:
        return "cal"
    if p._day_of_year is not None:
        return "ord"
    if p._week_of_year is not None:
        return "week"
    return None


def _whole(x):
    # (a day count that went through float arithmetic - e.g. a Duration
    # built with standardize=True - is stored as 2.0: the value counts)
    if type(x) is float and x == int(x):
        return int(x)
    return x


def tp_date(p):
    rep = tp_rep(p)
    if rep == "cal":
        return rep, (_whole(p._year), p._month_of_year,
                     _whole(p._day_of_month))
    if rep == "ord":
        return rep, (_whole(p._year), _whole(p._day_of_year))
    if rep == "week":
        return rep, (_whole(p._year), _whole(p._week_of_year),
                     _whole(p._day_of_week))
    return None, None


def date_to_rd(mode, rep, date):
    if rep == "cal":
        return ymd_to_rd(mode, *date)
    if rep == "ord":
        return ord_to_rd(mode, *date)
    if rep == "week":
        return week_to_rd(mode, *date)
    raise ValueError(rep)


def rd_to_date(mode, rep, rd):
    if rep == "cal":
        return rd_to_ymd(mode, rd)
    if rep == "ord":
        return rd_to_ord(mode, rd)
    if rep == "week":
        return rd_to_week(mode, rd)
    raise ValueError(rep)


def valid_date(mode, rep, date):
    if not all(_isint(x) for x in date):
        return False
    if rep == "cal":
        return valid_ymd(mode, *date)
    if rep == "ord":
        return valid_ord(mode, *date)
    if rep == "week":
        return valid_week(mode, *date)
    return False


def tp_rd(mode, p):
    rep, date = tp_date(p)
    return date_to_rd(mode, rep, date)


def tp_form(p):
    """time-precision form: 'hms', 'hm' (decimal minute), 'h' (decimal
    hour)"""
    if p._second_of_minute is not None:
        return "hms"
    if p._minute_of_hour is not None:
        return "hm"
    return "h"


def tp_sod(p):
    """second of day as an exact Fraction of the stored binary values"""
    h, m, sec = p._hour_of_day, p._minute_of_hour, p._second_of_minute
    if type(h) is int and (m is None or type(m) is int) and \
            (sec is None or type(sec) is int):
        return F(h * 3600 + (m or 0) * 60 + (sec or 0))   # fast path
    s = F(h) * 3600
    if m is not None:
        s += F(m) * 60
    if sec is not None:
        s += F(sec)
    return s


def tp_offset_minutes(p):
    tz = p._time_zone
    return tz._hours * 60 + tz._minutes


def tp_instant(mode, p):
    """seconds since 0001-01-01T00:00Z of the mode's calendar (Fraction)"""
    sod = tp_sod(p)
    base = tp_rd(mode, p) * SECONDS_IN_DAY - tp_offset_minutes(p) * 60
    if sod.denominator == 1:
        return F(base + sod.numerator)
    return base + sod


def tp_is_integral(p):
    """every time field integer-valued (exact regime candidate)"""
    for v in (p._hour_of_day, p._minute_of_hour, p._second_of_minute):
        if v is not None and F(v).denominator != 1:
            return False
    return True


def tp_is_dyadic(p, maxden=4096):
    """every time field is a binary fraction with a small denominator (a
    power of two up to `maxden`): all of the library's float arithmetic on
    such values (x60, x3600, sums and differences below 2**53, % 1) is
    exact, so the exact regime applies although a decimal form is used"""
    for v in (p._hour_of_day, p._minute_of_hour, p._second_of_minute):
        if v is not None:
            den = F(v).denominator
            if den > maxden or den & (den - 1):
                return False
    return True


def tp_is_2400(p):
    return p._hour_of_day == 24


def tp_time_valid(p, allow_24=True, slack=F(0)):
    """0<=h<24 (or exactly 24:00[:00]), 0<=m,s<60; upper bounds closed with
    `slack` (R1)"""
    h, m, s = p._hour_of_day, p._minute_of_hour, p._second_of_minute
    if h is None:
        return False
    if h == 24:
        return allow_24 and (m in (None, 0)) and (s in (None, 0))
    if not (0 <= F(h) < 24 + slack):
        return False
    if m is not None and not (0 <= F(m) < 60 + slack):
        return False
    if s is not None and not (0 <= F(s) < 60 + slack):
        return False
    # higher units must be integral when a lower unit is stored
    if m is not None and F(h).denominator != 1:
        return False
    if s is not None and F(m).denominator != 1:
        return False
    return True


def tp_valid(mode, p, allow_24=True, slack=F(0)):
    rep, date = tp_date(p)
    if rep is None:
        return False
    # exactly one representation
    n = sum(x is not None for x in (p._month_of_year, p._day_of_year,
                                    p._week_of_year))
    if n != 1:
        return False
    if rep == "cal" and (p._day_of_month is None or
                         p._day_of_week is not None):
        return False
    if rep == "ord" and (p._day_of_month is not None or
                         p._day_of_week is not None):
        return False
    if rep == "week" and (p._day_of_week is None or
                          p._day_of_month is not None):
        return False
    if not valid_date(mode, rep, date):
        return False
    return tp_time_valid(p, allow_24, slack)


def tp_key(p):
    """canonical hashable description of a time point (for distinctness,
    logs and replay)"""
    rep, date = tp_date(p)
    tz = p._time_zone
    return (rep, date, p._hour_of_day, p._minute_of_hour,
            p._second_of_minute, tz._hours, tz._minutes, bool(tz._unknown),
            bool(p._truncated))


def dur_is_exact(d):
    return not d._years and not d._months


def dur_len(d):
    """exact length in seconds of the exact part (Fraction)"""
    if d._weeks is not None:
        return F(d._weeks) * 7 * SECONDS_IN_DAY
    return (F(d._days) * SECONDS_IN_DAY + F(d._hours) * 3600
            + F(d._minutes) * 60 + F(d._seconds))


def dur_nominal(d):
    if d._weeks is not None:
        return 0, 0
    return d._years or 0, d._months or 0


def dur_is_integral(d):
    if d._weeks is not None:
        return True
    return all(F(v).denominator == 1
               for v in (d._days, d._hours, d._minutes, d._seconds))


def dur_key(d):
    return (d._years, d._months, d._weeks, d._days, d._hours, d._minutes,
            d._seconds)


# --------------------------------------------------------------------------
# nominal arithmetic (C05)

def add_one_month(mode, y, m, d, sign):
    m += sign
    if m > 12:
        m -= 12
        y += 1
    elif m < 1:
        m += 12
        y -= 1
    return y, m, min(d, month_len(mode, y, m))


def add_months(mode, y, m, d, n):
    sign = 1 if n > 0 else -1
    for _ in range(abs(n)):
        y, m, d = add_one_month(mode, y, m, d, sign)
    return y, m, d


def add_years_date(mode, rep, date, n):
    if rep == "cal":
        y, m, d = date
        y += n
        return y, m, min(d, month_len(mode, y, m))
    if rep == "ord":
        y, doy = date
        y += n
        return y, min(doy, year_len(mode, y))
    y, w, dow = date
    y += n
    return y, min(w, weeks_in_year(mode, y)), dow


def add_months_date(mode, rep, date, n):
    """week/ordinal dates go via their calendar date and back"""
    if n == 0:
        return date
    rd = date_to_rd(mode, rep, date)
    y, m, d = add_months(mode, *rd_to_ymd(mode, rd), n)
    return rd_to_date(mode, rep, ymd_to_rd(mode, y, m, d))


# --------------------------------------------------------------------------
# POSIX strftime for the supported directives (C17)

def posix_strftime(mode, fmt, rd, sod_int, offset_minutes, instant_int):
    """rd/sod are the civil (local) date and whole second of day; instant_int
    is floor(seconds since the Unix epoch)."""
    y, m, d = rd_to_ymd(mode, rd)
    _, doy = rd_to_ord(mode, rd)
    hh, rem = divmod(sod_int, 3600)
    mi, ss = divmod(rem, 60)
    sign = "-" if offset_minutes < 0 else "+"
    oh, om = divmod(abs(offset_minutes), 60)
    table = {
        "Y": "%04d" % y, "m": "%02d" % m, "d": "%02d" % d, "j": "%03d" % doy,
        "H": "%02d" % hh, "M": "%02d" % mi, "S": "%02d" % ss,
        "F": "%04d-%02d-%02d" % (y, m, d),
        "X": "%02d:%02d:%02d" % (hh, mi, ss),
        "z": "%s%02d%02d" % (sign, oh, om),
        "s": "%d" % instant_int,
    }
    out = []
    i = 0
    while i < len(fmt):
        c = fmt[i]
        if c == "%" and i + 1 < len(fmt) and fmt[i + 1] in table:
            out.append(table[fmt[i + 1]])
            i += 2
        else:
            out.append(c)
            i += 1
    return "".join(out)


def unix_epoch_rd(mode):
    return ymd_to_rd(mode, 1970, 1, 1)


# --------------------------------------------------------------------------
# local offset split (C18)

def split_offset_seconds(off):
    """whole-minute offset in seconds -> (hours, minutes), both carrying the
    sign"""
    total_min = abs(off) // 60
    sign = -1 if off < 0 else 1
    return sign * (total_min // 60), sign * (total_min % 60)


def offset_format(off, mode="normal"):
    h, m = split_offset_seconds(off)
    if h == 0 and m == 0:
        return "Z"
    sign = "-" if off < 0 else "+"
    if mode == "reduced" and m == 0:
        return "%s%02d" % (sign, abs(h))
    if mode == "extended":
        return "%s%02d:%02d" % (sign, abs(h), abs(m))
    return "%s%02d%02d" % (sign, abs(h), abs(m))


# --------------------------------------------------------------------------
# self-validation (run at the start of every check)

def self_validate(dense=False):
    """Return a list of failure strings (empty = fine)."""
    import datetime
    fails = []
    g = "gregorian"
    # against datetime for 1..9999
    years = list(range(1, 10000)) if dense else (
        list(range(1, 10000, 97)) + list(range(1580, 2410)) +
        [1, 4, 100, 400, 9996, 9999])
    for y in years:
        for (m, d) in ((1, 1), (2, 28), (3, 1), (12, 31), (7, 4)):
            dt = datetime.date(y, m, d)
            rd = ymd_to_rd(g, y, m, d)
            if rd != dt.toordinal() - 1:
                fails.append("rd %s" % dt)
            if rd_to_ymd(g, rd) != (y, m, d):
                fails.append("rd_to_ymd %s" % dt)
            iso = dt.isocalendar()
            if rd_to_week(g, rd) != (iso[0], iso[1], iso[2]):
                fails.append("week %s %r" % (dt, rd_to_week(g, rd)))
            if week_to_rd(g, *rd_to_week(g, rd)) != rd:
                fails.append("week inverse %s" % dt)
            if rd_to_ord(g, rd) != (y, dt.timetuple().tm_yday):
                fails.append("ord %s" % dt)
        if len(fails) > 5:
            return fails
    if dense:
        for o in range(datetime.date(1583, 1, 1).toordinal(),
                       datetime.date(2401, 1, 1).toordinal()):
            dt = datetime.date.fromordinal(o)
            if rd_to_ymd(g, o - 1) != (dt.year, dt.month, dt.day):
                fails.append("dense ymd %s" % dt)
            iso = dt.isocalendar()
            if rd_to_week(g, o - 1) != (iso[0], iso[1], iso[2]):
                fails.append("dense week %s" % dt)
    # 400-year periodicity (extends trust beyond datetime's range)
    for y in range(-2000, 12001, 7 if not dense else 1):
        for (m, d) in ((1, 1), (2, 28), (12, 31)):
            if ymd_to_rd(g, y + 400, m, d) != ymd_to_rd(g, y, m, d) + 146097:
                fails.append("period %d" % y)
        if rd_to_week(g, ymd_to_rd(g, y + 400, 6, 15))[1:] != \
                rd_to_week(g, ymd_to_rd(g, y, 6, 15))[1:]:
            fails.append("week period %d" % y)
    # fixed calendars against their defining arithmetic
    for mode, L in (("360day", 360), ("365day", 365), ("366day", 366)):
        for y in (-401, -1, 0, 1, 2, 1999, 2000, 2001, 10001):
            if year_len(mode, y) != L or sum(month_lengths(mode, y)) != L:
                fails.append("len %s %d" % (mode, y))
            if ymd_to_rd(mode, y, 1, 1) != L * (y - 1):
                fails.append("rd %s %d" % (mode, y))
            for doy in (1, 31, 59, 60, 61, L):
                rd = ord_to_rd(mode, y, doy)
                if rd_to_ord(mode, rd) != (y, doy):
                    fails.append("ord inv %s" % mode)
                yy, mm, dd = rd_to_ymd(mode, rd)
                if ymd_to_rd(mode, yy, mm, dd) != rd:
                    fails.append("ymd inv %s" % mode)
                if week_to_rd(mode, *rd_to_week(mode, rd)) != rd:
                    fails.append("week inv %s" % mode)
                wy, w, dow = rd_to_week(mode, rd)
                if not valid_week(mode, wy, w, dow):
                    fails.append("week valid %s" % mode)
        if weekday(mode, ymd_to_rd(mode, 2000, 1, 3)) != 1:
            fails.append("monday %s" % mode)
    # week 1 contains 4 January, in every mode
    for mode in MODES:
        for y in range(-30, 30):
            wy, w, _ = rd_to_week(mode, ymd_to_rd(mode, y, 1, 4))
            if (wy, w) != (y, 1):
                fails.append("jan4 %s %d" % (mode, y))
    # strftime against datetime at UTC
    for (y, mo, d, h, mi, s) in ((1, 1, 1, 0, 0, 0), (1969, 12, 31, 23, 59, 59),
                                 (2016, 2, 29, 12, 30, 2),
                                 (9999, 12, 31, 23, 59, 59)):
        dt = datetime.datetime(y, mo, d, h, mi, s)
        rd = ymd_to_rd(g, y, mo, d)
        sod = h * 3600 + mi * 60 + s
        inst = (rd - unix_epoch_rd(g)) * 86400 + sod
        for fmt in ("%Y-%m-%dT%H:%M:%S", "%j|%F|%X", "x%Y%%q"):
            exp = dt.strftime(fmt.replace("%%q", "")) if "%%" in fmt \
                else dt.strftime(fmt)
            got = posix_strftime(g, fmt.replace("%%q", ""), rd, sod, 0, inst)
            if y >= 1000 and got != exp:
                fails.append("strftime %s %s" % (fmt, dt))
        if y >= 1970 or True:
            exp_s = (dt - datetime.datetime(1970, 1, 1)) // \
                datetime.timedelta(seconds=1)
            if inst != exp_s:
                fails.append("epoch %s" % dt)
    for off, exp in ((0, (0, 0)), (-1800, (0, -30)), (-12600, (-3, -30)),
                     (20700, (5, 45)), (-8100, (-2, -15)), (49500, (13, 45))):
        if split_offset_seconds(off) != exp:
            fails.append("split %d" % off)
    return fails


if __name__ == "__main__":
    import sys
    import time
    t0 = time.time()
    f = self_validate(dense="--dense" in sys.argv)
    print("refmodel self-validation: %d failures in %.2fs" %
          (len(f), time.time() - t0))
    for x in f[:20]:
        print("  ", x)
    sys.exit(1 if f else 0)


# --------------------------------------------------------------------------
# reference points (used by the recurrence and truncated-addition oracles)

def pt_of(p):
    """reference view of a library TimePoint: representation, date tuple,
    second of day (Fraction), offset minutes"""
    rep, date = tp_date(p)
    return {"rep": rep, "date": tuple(date), "sod": tp_sod(p),
            "off": tp_offset_minutes(p)}


def pt_instant(mode, pt):
    return (date_to_rd(mode, pt["rep"], pt["date"]) * SECONDS_IN_DAY
            + pt["sod"] - pt["off"] * 60)


def dur_tuple(d, sign=1):
    y, m = dur_nominal(d)
    return (sign * y, sign * m, sign * dur_len(d))


def pt_add(mode, pt, dt):
    """pt + (years, months, exact seconds): exact part first, then months
    (single clamped steps, via the calendar date), then years (clamp per
    representation)"""
    years, months, secs = dt
    rep = pt["rep"]
    local = date_to_rd(mode, rep, pt["date"]) * SECONDS_IN_DAY + pt["sod"] \
        + secs
    rd = int(local // SECONDS_IN_DAY)
    sod = local - rd * SECONDS_IN_DAY
    date = rd_to_date(mode, rep, rd)
    if months:
        date = add_months_date(mode, rep, date, months)
    if years:
        date = add_years_date(mode, rep, date, years)
    return {"rep": rep, "date": tuple(date), "sod": sod, "off": pt["off"]}


def pt_same_fields(pt, p):
    """library point p has exactly the fields of reference point pt"""
    rep, date = tp_date(p)
    return (rep == pt["rep"] and tuple(date) == pt["date"] and
            tp_sod(p) == pt["sod"] and tp_offset_minutes(p) == pt["off"])
