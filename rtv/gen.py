"""Seeded, boundary-biased generators.  Everything produced is JSON-able
(constructor keyword dictionaries), so a case can be written to a replay file
and rebuilt with the real constructors."""
from . import refmodel as R

YEAR_POOL = [0, 1, -1, 3, 4, -4, 99, 100, -100, 400, -400, 401, 1582, 1899,
             1900, 1901, 1969, 1970, 1999, 2000, 2001, 2004, 2015, 2016,
             2020, 2026, 2099, 2100, 2101, 2400, 9998, 9999, 10000, 10001,
             -9999, 12345, -2401, 1000, 1800, 1801, 2200, 2201, 2300, 2600,
             1500, 1700, 2500, 3000]
REPS = ("cal", "ord", "week")
OFFSET_POOL = [(0, 0), (1, 0), (-1, 0), (5, 30), (-3, -30), (0, -30),
               (0, 30), (12, 45), (-12, 0), (13, 45), (14, 0), (-11, -59),
               (23, 59), (-23, -59), (24, 0), (-24, 0), (99, 59), (-99, -59),
               (47, 1), (-50, -1)]


# every small whole-hour offset and the sub-hour ones of either sign: for
# sweeps over all ordered pairs (source, destination)
OFFSET_GRID = [(h, 0) for h in range(-4, 5)] + [
    (0, 1), (0, -1), (0, 2), (0, -2), (0, 30), (0, -30), (0, 59), (0, -59),
    (5, 30), (5, 45), (-3, -30), (-9, -30), (-9, 0), (5, 0), (12, 0),
    (-12, 0), (14, 0), (99, 59), (-99, -59), (99, 0), (-99, 0)]


def huge_year(rng):
    """years beyond the integers a float holds exactly (and their leap /
    century / week-53 variety)"""
    return rng.choice((1, -1)) * (rng.choice((10 ** 16, 2 ** 53, 10 ** 18))
                                  + rng.randrange(0, 401))


def rand_year(rng, lo=-9999, hi=12000):
    if rng.random() < 0.55:
        y = rng.choice(YEAR_POOL)
        if lo <= y <= hi:
            return y
    return rng.randint(lo, hi)


def expanded_digits_for(y):
    if 0 <= y <= 9999:
        return 0
    if abs(y) <= 999999:
        return 2
    return 3


def boundary_rds(mode, y):
    """day numbers at and around the boundaries of year y"""
    out = set()
    y0 = R.days_before_year(mode, y)
    L = R.year_len(mode, y)
    for k in (-2, -1, 0, 1, 2):
        out.add(y0 + k)
        out.add(y0 + L - 1 + k)
    acc = 0
    for n in R.month_lengths(mode, y):
        acc += n
        for k in (-1, 0, 1):
            out.add(y0 + acc - 1 + k)
    ws = R.week_start(mode, y)
    for k in (-1, 0, 1, 6, 7):
        out.add(ws + k)
    return sorted(out)


def rand_rd(rng, mode, year=None, bias=0.6):
    y = rand_year(rng) if year is None else year
    if rng.random() < bias:
        return rng.choice(boundary_rds(mode, y))
    return R.days_before_year(mode, y) + rng.randrange(R.year_len(mode, y))


def date_kwargs(mode, rep, rd):
    date = R.rd_to_date(mode, rep, rd)
    if rep == "cal":
        kw = {"year": date[0], "month_of_year": date[1],
              "day_of_month": date[2]}
    elif rep == "ord":
        kw = {"year": date[0], "day_of_year": date[1]}
    else:
        kw = {"year": date[0], "week_of_year": date[1],
              "day_of_week": date[2]}
    n = expanded_digits_for(date[0])
    if n:
        kw["num_expanded_year_digits"] = n
    return kw


FORMS = ("hms", "hms", "hms", "hmsf", "hm", "h", "24")


def time_kwargs(rng, form=None, integral=None):
    """form: hms (whole seconds), hmsf (decimal seconds), hm (decimal
    minutes), h (decimal hours), 24 (24:00[:00])"""
    if form is None:
        form = rng.choice(FORMS)
    if form == "24":
        v = rng.random()
        if v < 0.3:
            return {"hour_of_day": 24}
        if v < 0.4:
            # the same end of day with an explicit zero fraction (T24,0 /
            # T24:00,0 / T24:00:00,0): the lower fields stay unset
            return rng.choice((
                {"hour_of_day": 24, "hour_of_day_decimal": 0.0},
                {"hour_of_day": 24, "minute_of_hour": 0,
                 "minute_of_hour_decimal": 0.0},
                {"hour_of_day": 24, "minute_of_hour": 0,
                 "second_of_minute": 0, "second_of_minute_decimal": 0.0}))
        if v < 0.7:
            return {"hour_of_day": 24, "minute_of_hour": 0}
        return {"hour_of_day": 24, "minute_of_hour": 0,
                "second_of_minute": 0}
    edge = rng.random()
    if edge < 0.25:
        h, m, s = 23, 59, 59
    elif edge < 0.45:
        h, m, s = 0, 0, 0
    elif edge < 0.55:
        h, m, s = rng.choice([(0, 0, 1), (23, 59, 58), (11, 59, 59),
                              (12, 0, 0), (0, 59, 59), (23, 0, 0)])
    else:
        h, m, s = rng.randrange(24), rng.randrange(60), rng.randrange(60)
    if form == "hms":
        return {"hour_of_day": h, "minute_of_hour": m, "second_of_minute": s}

    def frac():
        if integral:
            return 0.0
        k = rng.randint(1, 6)
        return rng.choice([0.5, 0.25, 0.75, 0.1, 0.999999, 0.000001, 0.3,
                           rng.randrange(10 ** k) / 10 ** k])
    if form == "hmsf":
        return {"hour_of_day": h, "minute_of_hour": m, "second_of_minute": s,
                "second_of_minute_decimal": frac()}
    if form == "hm":
        return {"hour_of_day": h, "minute_of_hour": m,
                "minute_of_hour_decimal": frac()}
    if form == "h":
        return {"hour_of_day": h, "hour_of_day_decimal": frac()}
    raise ValueError(form)


def rand_offset(rng, wide=True):
    if rng.random() < 0.6:
        return rng.choice(OFFSET_POOL)
    if rng.random() < 0.5:
        return (0, 0)
    lim = 99 if wide else 14
    h = rng.randint(-lim, lim)
    m = rng.randrange(60)
    if h < 0:
        m = -m
    elif h == 0 and rng.random() < 0.5:
        m = -m
    return (h, m)


def zone_kwargs(off):
    return {"time_zone_hour": off[0], "time_zone_minute": off[1]}


def rand_tp(rng, mode, rep=None, form=None, year=None, offset=None,
            integral=None, bias=0.6):
    rep = rep or rng.choice(REPS)
    kw = date_kwargs(mode, rep, rand_rd(rng, mode, year, bias))
    kw.update(time_kwargs(rng, form, integral))
    kw.update(zone_kwargs(offset if offset is not None
                          else rand_offset(rng)))
    return kw


def tp_from_instant(rng, mode, instant, rep=None, offset=None,
                    allow_2400=True):
    """kwargs of a whole-second point denoting `instant` (int seconds since
    0001-01-01T00Z), spelled in the given / a random representation and
    offset; midnight may be spelled 24:00 of the previous day."""
    rep = rep or rng.choice(REPS)
    off = offset if offset is not None else rand_offset(rng)
    local = instant + (off[0] * 60 + off[1]) * 60
    rd, sod = divmod(local, 86400)
    if sod == 0 and allow_2400 and rng.random() < 0.5:
        kw = date_kwargs(mode, rep, rd - 1)
        kw.update(rng.choice([{"hour_of_day": 24},
                              {"hour_of_day": 24, "minute_of_hour": 0,
                               "second_of_minute": 0}]))
    else:
        kw = date_kwargs(mode, rep, rd)
        h, rem = divmod(sod, 3600)
        m, s = divmod(rem, 60)
        kw.update({"hour_of_day": h, "minute_of_hour": m,
                   "second_of_minute": s})
    kw.update(zone_kwargs(off))
    return kw


EXACT_DUR_POOL = [
    {"seconds": 1}, {"seconds": -1}, {"minutes": 1}, {"minutes": -1},
    {"hours": 1}, {"hours": -1},
    {"hours": 23, "minutes": 59, "seconds": 59},
    {"hours": -23, "minutes": -59, "seconds": -59},
    {"days": 1}, {"days": -1}, {"days": 6}, {"days": -6},
    {"weeks": 1}, {"weeks": -1}, {"days": 8}, {"days": -8},
    {"days": 28}, {"days": -29}, {"days": 30}, {"days": -31},
    {"days": 365}, {"days": -365}, {"days": 366}, {"days": -366},
    {"days": 367}, {"days": -367}, {"days": 1461}, {"days": -1461},
    {"weeks": 52}, {"weeks": -53},
    {"seconds": 86400}, {"seconds": -86401}, {"minutes": 1440},
    {"hours": 24}, {"hours": -25}, {"hours": 8784},
    {"days": 1, "hours": -24}, {"days": -1, "seconds": 86401},
]


def rand_exact_dur(rng, integral=None, big=False):
    v = rng.random()
    if v < 0.45:
        return dict(rng.choice(EXACT_DUR_POOL))
    if v < 0.55:
        return {"weeks": rng.randint(-300, 300)}
    kw = {}
    maxd = rng.choice((40000, 40000, 400000)) if big else 800
    if rng.random() < 0.7:
        kw["days"] = rng.choice([rng.randint(-40, 40),
                                 rng.randint(-maxd, maxd)])
    if rng.random() < 0.5:
        kw["hours"] = rng.choice([rng.randint(-30, 30),
                                  rng.randint(-9000, 9000)])
    if rng.random() < 0.5:
        kw["minutes"] = rng.choice([rng.randint(-70, 70),
                                    rng.randint(-100000, 100000)])
    if rng.random() < 0.6:
        kw["seconds"] = rng.choice([rng.randint(-70, 70),
                                    rng.randint(-10**7, 10**7)])
    if not integral and rng.random() < 0.3:
        unit = rng.choice(["hours", "minutes", "seconds"])
        kw[unit] = kw.get(unit, 0) + rng.choice(
            [0.5, 0.25, -0.5, 0.1, 1.5, -0.75, 0.000001,
             round(rng.uniform(-100, 100), rng.randint(1, 6))])
    if not kw:
        kw = {"days": 0}
    return kw


def rand_nominal_dur(rng, with_exact=None):
    kw = {}
    v = rng.random()
    if v < 0.5:
        kw["months"] = rng.choice([1, -1, 2, -2, 3, 6, 11, 12, 13, -12, -13,
                                   24, 25, -25, 48, rng.randint(-60, 60)])
    elif v < 0.8:
        kw["years"] = rng.choice([1, -1, 3, -3, 4, -4, 100, -100, 400, -400,
                                  rng.randint(-500, 500)])
    else:
        kw["months"] = rng.randint(-30, 30)
        kw["years"] = rng.randint(-30, 30)
    if with_exact or (with_exact is None and rng.random() < 0.35):
        if rng.random() < 0.6:
            kw["days"] = rng.randint(-40, 40)
        if rng.random() < 0.5:
            kw["hours"] = rng.randint(-30, 30)
        if rng.random() < 0.3:
            kw["seconds"] = rng.randint(-4000, 4000)
    return kw


def twin_of(rng, mode, kw):
    """another spelling (representation / offset) of the same instant as the
    whole-second point described by kw; None when kw is not whole-second"""
    if any(k.endswith("_decimal") for k in kw) or \
            kw.get("hour_of_day") == 24 or "second_of_minute" not in kw:
        return None
    if "month_of_year" in kw:
        rd = R.ymd_to_rd(mode, kw["year"], kw["month_of_year"],
                         kw["day_of_month"])
    elif "day_of_year" in kw:
        rd = R.ord_to_rd(mode, kw["year"], kw["day_of_year"])
    else:
        rd = R.week_to_rd(mode, kw["year"], kw["week_of_year"],
                          kw["day_of_week"])
    sod = kw["hour_of_day"] * 3600 + kw["minute_of_hour"] * 60 + \
        kw["second_of_minute"]
    off = kw.get("time_zone_hour", 0) * 60 + kw.get("time_zone_minute", 0)
    inst = rd * 86400 + sod - off * 60
    return tp_from_instant(rng, mode, inst, allow_2400=False)
