"""Recurrence descriptions (JSON-able) and their reference series."""
from . import gen
from . import refmodel as R

EXACT_INTERVALS = [
    {"seconds": 1}, {"seconds": 90}, {"minutes": 1}, {"minutes": 90},
    {"hours": 1}, {"hours": 6}, {"hours": 36}, {"days": 1}, {"days": 7},
    {"weeks": 1}, {"weeks": 4}, {"days": 30}, {"days": 365},
    {"days": 1, "hours": 12}, {"hours": 23, "minutes": 59, "seconds": 59},
    {"days": 400, "seconds": 1}, {"hours": 1, "minutes": -30},
    {"days": 1500}, {"days": 3000, "hours": 1}, {"weeks": 300},
    {"days": 40000}, {"weeks": 5300}, {"hours": 900000},
]
# exact intervals with binary fractions (exact in floats): the sub-second
# part may come from any unit
BINARY_INTERVALS = [
    {"hours": 0.03125}, {"days": 1, "hours": 0.03125}, {"seconds": 2.5},
    {"minutes": 0.125}, {"hours": 0.5}, {"minutes": 1, "seconds": 0.25},
    {"hours": 1.5, "seconds": 0.5},
]
NOMINAL_INTERVALS = [
    {"months": 1}, {"years": 1}, {"months": 1, "days": 2},
    {"years": 30, "days": 2, "hours": 15}, {"months": 4, "days": 1},
    {"years": 2, "months": 4, "days": 3}, {"months": 13},
    {"years": 4}, {"months": 1, "hours": 1}, {"years": 1, "months": 1},
    {"months": 6}, {"years": 100},
]
REPS = (None, 1, 2, 3, 5, 9, 50)


def rand_anchor(rng, mode, lo=100, hi=9000, rep=None):
    y = gen.rand_year(rng, lo, hi)
    if rng.random() < 0.06:
        y = rng.choice((-2, -1, 0, 1, 2, -400, -5))   # around year 0
    kw = gen.rand_tp(rng, mode, rep=rep, form="hms", year=y, bias=0.7)
    return kw


def make(rng, mode, fmt=None, reps="any", interval="any", anchor=None):
    """-> description dict"""
    fmt = fmt or rng.choice((1, 3, 3, 4, 4))
    if reps == "any":
        reps = rng.choice(REPS)
    if interval == "exact" or (interval == "any" and rng.random() < 0.6):
        dkw = dict(rng.choice(EXACT_INTERVALS)) if rng.random() < 0.7 \
            else gen.rand_exact_dur(rng, integral=True)
        # intervals must not be negative
        if _len(dkw) < 0:
            dkw = {k: -v for k, v in dkw.items()}
        if rng.random() < 0.04:
            dkw = rng.choice(({"days": 0}, {"years": 0}, {}))
    elif interval == "nominal" or interval == "any":
        dkw = dict(rng.choice(NOMINAL_INTERVALS)) if rng.random() < 0.8 \
            else {k: abs(v) for k, v in
                  gen.rand_nominal_dur(rng).items()}
        if not any(dkw.get(k) for k in ("years", "months")):
            dkw["months"] = 1
    else:
        dkw = dict(interval)
    a = anchor or rand_anchor(rng, mode)
    desc = {"mode": mode, "fmt": fmt, "reps": reps}
    if fmt == 1:
        # second point = start + an exact positive delta, re-spelled
        desc["start"] = a
        desc["delta"] = dkw if not any(
            dkw.get(k) for k in ("years", "months")) else {"days": 31}
        desc["second_rep"] = rng.choice(gen.REPS)
        desc["second_off"] = list(gen.rand_offset(rng))
    elif fmt == 3:
        desc["start"] = a
        desc["dur"] = dkw
    else:
        desc["end"] = a
        desc["dur"] = dkw
    return desc


def _len(dkw):
    return (dkw.get("weeks", 0) * 7 * 86400 + dkw.get("days", 0) * 86400 +
            dkw.get("hours", 0) * 3600 + dkw.get("minutes", 0) * 60 +
            dkw.get("seconds", 0))


def second_point_kwargs(desc):
    """kwargs of the second point of a format-1 description (computed by the
    reference: start instant + delta, spelled in second_rep/second_off)"""
    mode = desc["mode"]

    class _P:       # minimal duck for refmodel readers
        pass
    a = desc["start"]
    rep = "cal" if "month_of_year" in a else (
        "ord" if "day_of_year" in a else "week")
    date = {"cal": lambda: (a["year"], a["month_of_year"],
                            a["day_of_month"]),
            "ord": lambda: (a["year"], a["day_of_year"]),
            "week": lambda: (a["year"], a["week_of_year"],
                             a["day_of_week"])}[rep]()
    sod = a["hour_of_day"] * 3600 + a.get("minute_of_hour", 0) * 60 + \
        a.get("second_of_minute", 0)
    off = a.get("time_zone_hour", 0) * 60 + a.get("time_zone_minute", 0)
    inst = R.date_to_rd(mode, rep, date) * 86400 + sod - off * 60
    inst2 = inst + _len(desc["delta"])
    o2 = tuple(desc["second_off"])
    local = inst2 + (o2[0] * 60 + o2[1]) * 60
    rd, s2 = divmod(local, 86400)
    kw = gen.date_kwargs(mode, desc["second_rep"], rd)
    h, rem = divmod(s2, 3600)
    m, s = divmod(rem, 60)
    kw.update({"hour_of_day": h, "minute_of_hour": m, "second_of_minute": s})
    kw.update(gen.zone_kwargs(o2))
    return kw


def build(repo, desc, **extra):
    kw = {"repetitions": desc["reps"]}
    if desc["fmt"] == 1:
        kw["start_point"] = repo.tp(desc["start"])
        kw["end_point"] = repo.tp(second_point_kwargs(desc))
    elif desc["fmt"] == 3:
        kw["start_point"] = repo.tp(desc["start"])
        kw["duration"] = repo.dur(desc["dur"])
    else:
        kw["end_point"] = repo.tp(desc["end"])
        kw["duration"] = repo.dur(desc["dur"])
    kw.update(extra)
    return repo.TimeRecurrence(**kw)


def interval_tuple(desc):
    """(years, months, exact seconds) of the interval"""
    dkw = desc["delta"] if desc["fmt"] == 1 else desc["dur"]
    return (dkw.get("years", 0), dkw.get("months", 0), _len(dkw))


def is_single(desc):
    it = interval_tuple(desc)
    return desc["reps"] == 1 or it == (0, 0, 0)


def is_nominal(desc):
    it = interval_tuple(desc)
    return bool(it[0] or it[1])


def clamp_descs(mode):
    """deterministic descriptions whose anchors sit where month/year steps
    clamp: leap day, 31 January, day 366, week 53 - in each representation,
    notation 3 and 4, unbounded and bounded"""
    out = []
    anchors = []
    for y in (2020, 2024):
        rd = R.ymd_to_rd(mode, y, 2, R.month_len(mode, y, 2))
        anchors.append(rd)
        anchors.append(R.ymd_to_rd(mode, y, 1, R.month_len(mode, y, 1)))
        anchors.append(R.days_before_year(mode, y) + R.year_len(mode, y) - 1)
        anchors.append(R.week_start(mode, y + 1) - 3)
    # the last week of several consecutive week-years (their number of weeks
    # differs from year to year: 52/53, or 51/52 in the 360-day calendar)
    for y in (2000, 2001, 2002, 2003):
        anchors.append(R.week_start(mode, y + 1) - 5)
    for i, rd in enumerate(anchors):
        for rep in gen.REPS:
            a = gen.date_kwargs(mode, rep, rd)
            a.update({"hour_of_day": 6 * (i % 4), "minute_of_hour": 0,
                      "second_of_minute": 0})
            a.update(gen.zone_kwargs(((0, 0), (5, 30), (-3, -30))[i % 3]))
            for dkw in ({"years": 1}, {"years": 4}, {"months": 1},
                        {"years": 1, "months": 1}, {"months": 1, "days": 1},
                        {"months": 12}):
                for fmt in (3, 4):
                    for reps in (None, 6):
                        d = {"mode": mode, "fmt": fmt, "reps": reps,
                             "dur": dict(dkw)}
                        d["start" if fmt == 3 else "end"] = dict(a)
                        out.append(d)
    return out
