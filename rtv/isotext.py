"""ISO 8601 text encoders / decoders written from the standard's forms (not
from the repository's parser_spec).  Used as the oracle's spelling of field
values (C07, C08, C19) and to read back dumped text (C06, C08)."""
import re


def enc_year(y, nexp):
    if nexp:
        return "%s%0*d" % ("-" if y < 0 else "+", 4 + nexp, abs(y))
    if not 0 <= y <= 9999:
        raise ValueError("year needs expanded form")
    return "%04d" % y


def enc_date(rep, date, ext, nexp=0):
    sep = "-" if ext else ""
    ys = enc_year(date[0], nexp)
    if rep == "cal":
        return ys + sep + "%02d" % date[1] + sep + "%02d" % date[2]
    if rep == "ord":
        return ys + sep + "%03d" % date[1]
    return ys + sep + "W%02d" % date[1] + sep + "%d" % date[2]


def enc_frac(digits):
    """digits: string of decimal digits (no point)"""
    return digits


def enc_time(h, m=None, s=None, ext=True, frac=None, point=","):
    """frac: string of digits applied to the last given unit"""
    sep = ":" if ext else ""
    out = "%02d" % h
    if m is not None:
        out += sep + "%02d" % m
        if s is not None:
            out += sep + "%02d" % s
    if frac:
        out += point + frac
    return out


def enc_zone(off, form, ext):
    """off = (h, m) both carrying the sign; form: 'Z', 'hh', 'hhmm'"""
    h, m = off
    if form == "Z":
        return "Z"
    sign = "-" if (h < 0 or m < 0) else "+"
    if form == "hh":
        return "%s%02d" % (sign, abs(h))
    if ext:
        return "%s%02d:%02d" % (sign, abs(h), abs(m))
    return "%s%02d%02d" % (sign, abs(h), abs(m))


_ZONE = r"(?P<z>Z|[+-]\d\d(?::?\d\d)?)?"


def dec_zone(z):
    """-> offset minutes, or None when absent"""
    if z is None or z == "":
        return None
    if z == "Z":
        return 0
    sign = -1 if z[0] == "-" else 1
    digits = z[1:].replace(":", "")
    h = int(digits[:2])
    m = int(digits[2:4]) if len(digits) > 2 else 0
    return sign * (h * 60 + m)


def decode(text, rep, ext, nexp, time_units):
    """Decode a complete date-time spelled with a known layout.
    time_units: 1, 2 or 3 (hh / hh mm / hh mm ss), optional decimal fraction
    on the last unit.  Returns (date tuple, second-of-day as (num, den)
    Fraction-compatible, offset minutes or None)."""
    from fractions import Fraction as F
    sep = "-" if ext else ""
    tsep = ":" if ext else ""
    ypat = r"(?P<y>[+-]\d{%d})" % (4 + nexp) if nexp else r"(?P<y>\d{4})"
    if rep == "cal":
        dpat = ypat + sep + r"(?P<a>\d\d)" + sep + r"(?P<b>\d\d)"
    elif rep == "ord":
        dpat = ypat + sep + r"(?P<a>\d{3})"
    else:
        dpat = ypat + sep + r"W(?P<a>\d\d)" + sep + r"(?P<b>\d)"
    if time_units == 0:
        # a date, the time designator and a zone, no time of day at all
        m = re.fullmatch(dpat + "T" + _ZONE, text)
        if not m:
            return None
        g = m.groupdict()
        y = int(g["y"])
        date = (y, int(g["a"])) if rep == "ord" else \
            (y, int(g["a"]), int(g["b"]))
        return date, None, dec_zone(g["z"])
    tpat = r"(?P<h>\d\d)"
    if time_units >= 2:
        tpat += tsep + r"(?P<mi>\d\d)"
    if time_units >= 3:
        tpat += tsep + r"(?P<s>\d\d)"
    tpat += r"(?:[,.](?P<f>\d+))?"
    m = re.fullmatch(dpat + "T" + tpat + _ZONE, text)
    if not m:
        return None
    g = m.groupdict()
    y = int(g["y"])
    if rep == "ord":
        date = (y, int(g["a"]))
    else:
        date = (y, int(g["a"]), int(g["b"]))
    frac = F(int(g["f"]), 10 ** len(g["f"])) if g["f"] else F(0)
    h = int(g["h"])
    mi = int(g["mi"]) if g.get("mi") else 0
    s = int(g["s"]) if g.get("s") else 0
    unit = {1: 3600, 2: 60, 3: 1}[time_units]
    sod = F(h * 3600 + mi * 60 + s) + frac * unit
    return date, sod, dec_zone(g["z"])
