"""C20 - adding a truncated time point finds the next matching date-time.

Monitor: postcondition on TimePoint.__add__ (truncated + full, either
order): the result must be the reference's earliest matching instant >= p,
in p's offset and valid.  The workload also checks idempotence on the real
operator and runs every addition under a logical step budget derived from
the reference distance (termination clause)."""
from fractions import Fraction as F

from .. import core
from .. import gen
from .. import refmodel as R

RULE = ("cases = (truncated point t, full whole-second point p, operand "
        "order): t of every stated shape - time only (h, hm, hms, m, ms, s), "
        "one day designator (day-of-month 1-31, day-of-year 1-366, weekday "
        "1-7, week 1-53 + weekday), designator + time - with unknown or "
        "given offset, built by the constructor and by the allow_truncated "
        "parser; p in 3 representations, any offset, time of day exactly "
        "at / one second before / after a match or random; Gregorian mode "
        "(R7); non-trivial = the reference result differs from p; distinct "
        "by (t-fields, p-fields)")
DECIDING = ["trunc_add.post", "idempotent", "budgeted"]
MIN_EVALS = {"trunc_add.post": 2500, "idempotent": 1000, "budgeted": 1200}
ASSUMPTIONS = [
    "termination is decided as bounded progress: at most 400*(reference "
    "distance in days + 200) + 20000 LINE events in repository code",
]
MODE = "gregorian"
SEARCH_DAYS = 420 * 366


def t_spec(t):
    """specified fields of a truncated point"""
    return {"h": t._hour_of_day, "mi": t._minute_of_hour,
            "s": t._second_of_minute, "dom": t._day_of_month,
            "doy": t._day_of_year, "dow": t._day_of_week,
            "week": t._week_of_year, "mon": t._month_of_year,
            "year": t._year}


def in_scope(spec):
    """the shapes the property states: time-of-day fields and/or one day
    designator; whole numbers"""
    if spec["mon"] is not None or spec["year"] is not None:
        return False
    for k in ("h", "mi", "s"):
        v = spec[k]
        if v is not None and F(v).denominator != 1:
            return False
    des = [spec["dom"] is not None, spec["doy"] is not None,
           spec["dow"] is not None or spec["week"] is not None]
    if sum(des) > 1:
        return False
    if spec["week"] is not None and spec["dow"] is None:
        return False
    return any(v is not None for v in spec.values())


def tods(spec, tod0):
    """sorted candidate seconds-of-day matching the time constraints"""
    h, mi, s = spec["h"], spec["mi"], spec["s"]
    if h is None and mi is None and s is None:
        return [tod0]
    if h is not None:
        return [int(h) * 3600 + int(mi or 0) * 60 + int(s or 0)]
    if mi is not None:
        return [H * 3600 + int(mi) * 60 + int(s or 0) for H in range(24)]
    return [k * 60 + int(s) for k in range(1440)]


def day_matches(spec, rd):
    if spec["dom"] is not None:
        return R.rd_to_ymd(MODE, rd)[2] == spec["dom"]
    if spec["doy"] is not None:
        return R.rd_to_ord(MODE, rd)[1] == spec["doy"]
    if spec["dow"] is not None:
        wy, w, d = R.rd_to_week(MODE, rd)
        if d != spec["dow"]:
            return False
        return spec["week"] is None or w == spec["week"]
    return True


def next_match(spec, local0):
    """earliest local second >= local0 matching spec, or None"""
    rd0, tod0 = divmod(local0, 86400)
    cands = tods(spec, tod0)
    rd = rd0
    has_des = any(spec[k] is not None for k in ("dom", "doy", "dow", "week"))
    while rd < rd0 + SEARCH_DAYS:
        if day_matches(spec, rd):
            lo = tod0 if rd == rd0 else 0
            for c in cands:
                if c >= lo:
                    return rd * 86400 + c
        if not has_des:
            rd += 1
        elif spec["dow"] is not None and spec["week"] is None:
            rd += 1
        else:
            rd += 1
    return None


def classify_not_earliest(kind, case, detail):
    """day designator, no hour, a minute and/or second: the result matches
    every specified field, is >= p, valid, idempotent - only not the
    earliest"""
    return (kind == "trunc_add.not-earliest" and
            detail.get("has_designator") and detail.get("no_hour") and
            detail.get("has_min_or_sec") and detail.get("matches") is True)


CLASSIFIERS = {"c20_day_plus_partial_time_not_earliest":
               classify_not_earliest}
FINDING_EXAMPLES = {
    "c20_day_plus_partial_time_not_earliest": {
        "op": "add", "order": "t+p",
        "t": {"truncated": True, "day_of_week": 2, "minute_of_hour": 30},
        "p": {"year": 2001, "month_of_year": 1, "day_of_month": 1,
              "hour_of_day": 7, "minute_of_hour": 45, "second_of_minute": 0}},
}


def install(ctx, repo, probes):
    TP = repo.TimePoint

    def pre(args, kwargs):
        if len(args) != 2:
            return None
        a, b = args
        if not isinstance(b, TP) or not isinstance(a, TP):
            return None
        if a._truncated and not b._truncated:
            t, p = a, b
        elif b._truncated and not a._truncated:
            return None          # delegates to other + self, seen there
        else:
            return None
        spec = t_spec(t)
        if R.canon(repo.CALENDAR.mode) != MODE or not in_scope(spec) or \
                not R.tp_valid(MODE, p) or p._hour_of_day == 24:
            return None
        tz = t._time_zone
        p_off = R.tp_offset_minutes(p)
        off = p_off if tz._unknown else tz._hours * 60 + tz._minutes
        if not R.tp_is_integral(p):
            # a whole-second instant written with decimal hours in quarter
            # hours (exact in floats, also when re-zoned by quarter hours)
            # (or eighths / sixteenths of an hour: 450 s, 225 s)
            if not (R.tp_form(p) == "h" and R.tp_is_dyadic(p, 16) and
                    (off - p_off) % 15 == 0 and p_off % 15 == 0):
                return None
            ctx.cls("p/decimal-hour-quarter")
            if not R.tp_is_dyadic(p, 4):
                ctx.cls("p/decimal-hour-sixteenth")
        if ctx.t_zone is not None:
            # the workload knows which zone t was given ("" = none): the
            # oracle must not depend on the library's own unknown flag
            off = p_off if ctx.t_zone == "" else ctx.t_zone
        inst0 = int(R.tp_instant(MODE, p))
        local0 = inst0 + off * 60
        want_local = next_match(spec, local0)
        return {"spec": spec, "off": off, "p_off": p_off, "inst0": inst0,
                "want": None if want_local is None
                else want_local - off * 60,
                "pkey": R.tp_key(p), "tkey": R.tp_key(t)}

    def post(snap, args, kwargs, q, exc):
        if snap is None:
            return
        ctx.ev("trunc_add.post")
        spec = snap["spec"]
        des = any(spec[k] is not None for k in ("dom", "doy", "dow", "week"))
        info = dict(has_designator=des, no_hour=spec["h"] is None,
                    has_min_or_sec=(spec["mi"] is not None or
                                    spec["s"] is not None),
                    t=snap["tkey"], p=snap["pkey"])
        if exc is not None:
            ctx.violation("trunc_add.raised", "truncated %r + %r raised %r"
                          % (snap["tkey"], snap["pkey"], exc), **info)
            return
        if snap["want"] is None:
            return
        prob = kind = None
        if not isinstance(q, TP) or q._truncated or \
                not R.tp_valid(MODE, q):
            kind, prob = "invalid", "result is not a valid full TimePoint"
        elif R.tp_offset_minutes(q) != snap["p_off"]:
            kind, prob = "offset", "result is not in p's UTC offset"
        else:
            got = R.tp_instant(MODE, q)
            if got != snap["want"]:
                loc = int(got) + snap["off"] * 60
                rd, tod = divmod(loc, 86400)
                matches = (got.denominator == 1 and got >= snap["inst0"] and
                           day_matches(spec, rd) and
                           tod in tods(spec, (snap["inst0"] +
                                              snap["off"] * 60) % 86400))
                info["matches"] = bool(matches)
                kind = "not-earliest" if matches and got > snap["want"] \
                    else "wrong"
                prob = "result is %+d s from the earliest match" % int(
                    got - snap["want"])
        if prob:
            ctx.violation("trunc_add." + kind, "truncated %r + %r = %r: %s"
                          % (snap["tkey"], snap["pkey"],
                             R.tp_key(q) if hasattr(q, "_year") else q,
                             prob), **info)
            return
        shape = []
        if spec["h"] is not None or spec["mi"] is not None or \
                spec["s"] is not None:
            shape.append("time")
        for k in ("dom", "doy", "week", "dow"):
            if spec[k] is not None:
                shape.append(k)
                break
        ctx.cls("shape/" + "+".join(shape))
        ctx.cls("zone/" + ("given" if snap["off"] != snap["p_off"] or
                           not args[0]._time_zone._unknown else "unknown"))
        if snap["want"] == snap["inst0"]:
            ctx.cls("already-matching")
        else:
            ctx.nontrivial((snap["tkey"], snap["pkey"]))
    probes.wrap(TP, "__add__", post, pre)
    ctx.t_zone = None
    ctx.budget = core.Budget(repo.path)
    ctx.tparser = repo.parsers.TimePointParser(
        allow_truncated=True, default_to_unknown_time_zone=True)
    for s in ("time", "dom", "doy", "week", "dow", "time+dom", "time+doy",
              "time+week", "time+dow"):
        ctx.target("shape/" + s)
    ctx.target("p/decimal-hour-quarter", "p/decimal-hour-sixteenth")
    ctx.target("zone/given", "zone/unknown", "already-matching",
               "built/parser", "built/constructor", "order/t+p", "order/p+t")


def build_t(ctx, repo, case):
    if "t_text" in case:
        ctx.cls("built/parser")
        return ctx.tparser.parse(case["t_text"])
    ctx.cls("built/constructor")
    return repo.TimePoint(**case["t"])


def run_case(ctx, repo, case):
    repo.set_mode(MODE)
    t = build_t(ctx, repo, case)
    p = repo.tp(case["p"])
    spec = t_spec(t)
    tz = t._time_zone
    given = case.get("t_zone")          # [h, m] or None
    if "t_zone" in case:
        if bool(tz._unknown) != (given is None) or (
                given is not None and
                [tz._hours, tz._minutes] != list(given)):
            ctx.violation("t.zone", "truncated point built with zone %r has "
                          "zone (%r, %r, unknown=%r)" % (
                              given, tz._hours, tz._minutes, tz._unknown),
                          t=R.tp_key(t))
        ctx.t_zone = "" if given is None else given[0] * 60 + given[1]
        off = R.tp_offset_minutes(p) if given is None else ctx.t_zone
    else:
        off = R.tp_offset_minutes(p) if tz._unknown else \
            tz._hours * 60 + tz._minutes
    try:
        _run_add(ctx, repo, case, t, p, spec, off)
    finally:
        ctx.t_zone = None


def _run_add(ctx, repo, case, t, p, spec, off):
    inst0 = int(R.tp_instant(MODE, p))
    want = next_match(spec, inst0 + off * 60) if in_scope(spec) else None
    days = 0 if want is None else (want - (inst0 + off * 60)) // 86400
    limit = 400 * (days + 200) + 20000
    ctx.ev("budgeted")
    ctx.cls("order/" + case["order"])
    try:
        if case["order"] == "t+p":
            q, steps = ctx.budget.run(limit, lambda: t + p)
        else:
            q, steps = ctx.budget.run(limit, lambda: p + t)
    except core.BudgetExceeded:
        ctx.violation("budget", "truncated %r + %r did not finish within %d "
                      "logical steps (reference distance %d days)" % (
                          R.tp_key(t), R.tp_key(p), limit, days))
        return
    except Exception:
        return                      # reported by the monitor
    ctx.extra["max_steps_seen"] = max(ctx.extra.get("max_steps_seen", 0),
                                      steps)
    if isinstance(q, repo.TimePoint) and not q._truncated:
        ctx.ev("idempotent")
        try:
            q2, _ = ctx.budget.run(limit, lambda: t + q)
        except core.BudgetExceeded:
            ctx.violation("budget", "re-applying %r to the result did not "
                          "finish" % (R.tp_key(t),))
            return
        except Exception as exc:
            ctx.violation("idempotent.raised", "re-applying raised %r" % exc)
            return
        if R.tp_instant(MODE, q2) != R.tp_instant(MODE, q) or \
                (q2 == q) is not True:
            ctx.violation("idempotent", "t + (t + p) != t + p for t=%r p=%r: "
                          "%r then %r" % (R.tp_key(t), R.tp_key(p),
                                          R.tp_key(q), R.tp_key(q2)),
                          t=R.tp_key(t), p=R.tp_key(p))


# --------------------------------------------------------------------------

def rand_trunc(rng):
    """-> dict with either constructor kwargs 't' or parser text 't_text'"""
    time_shape = rng.choice(("", "h", "hm", "hms", "m", "ms", "s"))
    des = rng.choice(("", "", "dom", "doy", "dow", "week"))
    if not time_shape and not des:
        des = "dow"
    h, mi, s = rng.randrange(24), rng.randrange(60), rng.randrange(60)
    if rng.random() < 0.3:
        h, mi, s = rng.choice(((0, 0, 0), (23, 59, 59), (12, 30, 0)))
    dom = rng.choice((1, 28, 29, 30, 31, rng.randint(1, 31)))
    doy = rng.choice((1, 59, 60, 365, 366, rng.randint(1, 366)))
    dow = rng.randint(1, 7)
    week = rng.choice((1, 52, 53, rng.randint(1, 53)))
    zone = gen.rand_offset(rng, wide=False) if rng.random() < 0.35 else None
    kw = {"truncated": True}
    if "h" in time_shape:
        kw["hour_of_day"] = h
    if "m" in time_shape:
        kw["minute_of_hour"] = mi
    if "s" in time_shape:
        kw["second_of_minute"] = s
    if des == "dom":
        kw["day_of_month"] = dom
    elif des == "doy":
        kw["day_of_year"] = doy
    elif des == "dow":
        kw["day_of_week"] = dow
    elif des == "week":
        kw["week_of_year"], kw["day_of_week"] = week, dow
    if zone is not None:
        kw["time_zone_hour"], kw["time_zone_minute"] = zone
    out = {"t": kw}
    if rng.random() < 0.4 and (zone is None or time_shape):
        # the same point through the allow_truncated parser
        d = {"": "", "dom": "---%02d" % dom, "doy": "-%03d" % doy,
             "dow": "-W-%d" % dow, "week": "-W%02d%d" % (week, dow)}[des]
        tt = {"": "", "h": "%02d" % h, "hm": "%02d%02d" % (h, mi),
              "hms": "%02d%02d%02d" % (h, mi, s), "m": "-%02d" % mi,
              "ms": "-%02d%02d" % (mi, s), "s": "--%02d" % s}[time_shape]
        text = d
        if tt:
            text += "T" + tt
            if zone is not None:
                from .. import isotext
                text += isotext.enc_zone(zone, "hhmm", False)
        out = {"t_text": text}
    out["t_zone"] = list(zone) if zone is not None else None
    return out, kw


def structured_cases(ctx):
    """every day of a leap and a common year (and the years a rare
    designator needs) against the critical designator values"""
    stride = 3 if ctx.tier == "quick" else 1
    k = 0
    # week 53: the years where the gap to the next 53-week year is longest
    # (7 years around the non-leap centuries), from the reference
    long_gap = []
    for y in range(1880, 2320):
        if R.weeks_in_year(MODE, y) == 53:
            nxt = next(z for z in range(y + 1, y + 12)
                       if R.weeks_in_year(MODE, z) == 53)
            if nxt - y >= 7:
                long_gap.append(y + 1)
    for y in long_gap:
        y0 = R.days_before_year(MODE, y)
        for doy in range(0, R.year_len(MODE, y), 9):
            k += 1
            if (k + ctx.seed) % stride or not ctx.mine(k // stride):
                continue
            inst = (y0 + doy) * 86400 + (k * 7919) % 86400
            rep = gen.REPS[k % 3]
            off = gen.OFFSET_POOL[k % 6]
            local = inst + (off[0] * 60 + off[1]) * 60
            rd, sod = divmod(local, 86400)
            pkw = gen.date_kwargs(MODE, rep, rd)
            pkw.update({"hour_of_day": sod // 3600,
                        "minute_of_hour": sod % 3600 // 60,
                        "second_of_minute": sod % 60})
            pkw.update(gen.zone_kwargs(off))
            yield {"op": "add", "order": "t+p" if k % 2 else "p+t",
                   "t": {"truncated": True, "week_of_year": 53,
                         "day_of_week": 1 + k % 7}, "p": pkw, "t_zone": None}
    # the fortnight around every New Year of a 28-year cycle (each leap type
    # and starting weekday), p in each representation, against the
    # designators that name such days
    for y in list(range(2000, 2028)) + [-1, 0, -5, -101, -401]:
        ny = R.days_before_year(MODE, y + 1)
        for rd in range(ny - 7, ny + 7):
            for kw in ({"day_of_week": 1}, {"week_of_year": 1,
                                            "day_of_week": 1},
                       {"week_of_year": 53, "day_of_week": 1,
                        "hour_of_day": 6},
                       {"week_of_year": 52, "day_of_week": 7},
                       {"day_of_year": 1, "hour_of_day": 6},
                       {"day_of_year": 366}, {"day_of_year": 365},
                       {"day_of_month": 31}, {"day_of_month": 1},
                       {"day_of_week": 1 + rd % 7, "hour_of_day": 6}):
                k += 1
                if not ctx.mine(k):
                    continue
                rep = gen.REPS[k % 3]
                sod = (0, 5 * 3600, 86399, 6 * 3600)[k % 4]
                pkw = gen.date_kwargs(MODE, rep, rd)
                pkw.update({"hour_of_day": sod // 3600,
                            "minute_of_hour": sod % 3600 // 60,
                            "second_of_minute": sod % 60})
                pkw.update(gen.zone_kwargs((0, 0)))
                yield {"op": "add", "order": "t+p" if k % 2 else "p+t",
                       "t": dict(kw, truncated=True), "p": pkw,
                       "t_zone": None}
    # p written with decimal hours, already matching t when read in t's zone
    # (minutes away from p's, across midnight): nothing has to be stepped
    base = R.ymd_to_rd(MODE, 2000, 1, 1) * 86400
    for p_off, t_off in (((0, 0), (0, 30)), ((5, 0), (5, 30)),
                         ((0, 45), (0, 15)), ((0, 30), (0, 0)),
                         ((-3, -30), (-3, 0)), ((1, 0), (0, 45))):
        for q in (94, 95, 96, 97, 1, 2):       # quarter hours of the day
            for rep in gen.REPS:
                k += 1
                if not ctx.mine(k):
                    continue
                pm, tm = p_off[0] * 60 + p_off[1], t_off[0] * 60 + t_off[1]
                inst = base + q * 900 - pm * 60
                prd, psod = divmod(inst + pm * 60, 86400)
                pkw = gen.date_kwargs(MODE, rep, prd)
                pkw.update({"hour_of_day": psod // 3600,
                            "hour_of_day_decimal": psod % 3600 / 3600.0})
                pkw.update(gen.zone_kwargs(p_off))
                trd, tsod = divmod(inst + tm * 60, 86400)
                shapes = [{"hour_of_day": tsod // 3600,
                           "minute_of_hour": tsod % 3600 // 60},
                          {"day_of_week": R.rd_to_week(MODE, trd)[2]},
                          {"day_of_month": R.rd_to_ymd(MODE, trd)[2]}]
                tkw = dict(shapes[k % 3], truncated=True,
                           time_zone_hour=t_off[0], time_zone_minute=t_off[1])
                yield {"op": "add", "order": "t+p" if k % 2 else "p+t",
                       "t": tkw, "p": pkw, "t_zone": list(t_off)}
    # t in a zone hours away from p's: reading p in t's zone steps back (or
    # forward) over the end of February of leap and common years
    for y in (2024, 2000, 2023, 1900):
        mar1 = R.ymd_to_rd(MODE, y, 3, 1)
        for p_off, t_off in (((5, 0), (0, 0)), ((0, 0), (-5, 0)),
                             ((-4, 0), (2, 0)), ((0, 0), (9, 30))):
            for sod in (2 * 3600 + 1800, 23 * 3600):
                for rep in gen.REPS:
                    for tkw in ({"hour_of_day": 22}, {"day_of_month": 1,
                                                      "hour_of_day": 0},
                                {"day_of_month": 29}):
                        k += 1
                        if not ctx.mine(k):
                            continue
                        rd = mar1 if sod < 43200 else mar1 - 1
                        pkw = gen.date_kwargs(MODE, rep, rd)
                        pkw.update({"hour_of_day": sod // 3600,
                                    "minute_of_hour": sod % 3600 // 60,
                                    "second_of_minute": 0})
                        pkw.update(gen.zone_kwargs(p_off))
                        t = dict(tkw, truncated=True,
                                 time_zone_hour=t_off[0],
                                 time_zone_minute=t_off[1])
                        yield {"op": "add", "order": "t+p" if k % 2
                               else "p+t", "t": t, "p": pkw,
                               "t_zone": list(t_off)}
    # the end of February in year 0 (a leap year whose number is falsy), 4
    # and 1 (the first common year), every representation
    for y in (0, 4, 1):
        feb28 = R.ymd_to_rd(MODE, y, 2, 28)
        for rd in (feb28 - 1, feb28, feb28 + 1, feb28 + 2):
            for kw in ({"hour_of_day": 6}, {"day_of_month": 29},
                       {"day_of_month": 1}, {"day_of_year": 60},
                       {"day_of_year": 61}, {"minute_of_hour": 30},
                       {"day_of_week": 1 + rd % 7, "hour_of_day": 6}):
                for sod in (7 * 3600, 5 * 3600, 86399):
                    k += 1
                    if not ctx.mine(k):
                        continue
                    rep = gen.REPS[k % 3]
                    pkw = gen.date_kwargs(MODE, rep, rd)
                    pkw.update({"hour_of_day": sod // 3600,
                                "minute_of_hour": sod % 3600 // 60,
                                "second_of_minute": sod % 60})
                    pkw.update(gen.zone_kwargs((0, 0)))
                    yield {"op": "add", "order": "t+p" if k % 2 else "p+t",
                           "t": dict(kw, truncated=True), "p": pkw,
                           "t_zone": None}
    for y in (2019, 2020, 2100):
        y0 = R.days_before_year(MODE, y)
        for doy in range(R.year_len(MODE, y)):
            for kw in ({"day_of_month": 29}, {"day_of_month": 31},
                       {"day_of_month": 30, "hour_of_day": 6},
                       {"day_of_year": 366}, {"day_of_year": 60},
                       {"week_of_year": 53, "day_of_week": 4},
                       {"week_of_year": 1, "day_of_week": 1,
                        "hour_of_day": 0},
                       {"day_of_week": 7, "hour_of_day": 23,
                        "minute_of_hour": 59}):
                k += 1
                if (k + ctx.seed) % stride or not ctx.mine(k // stride):
                    continue
                t = dict(kw, truncated=True)
                inst = (y0 + doy) * 86400 + (k * 7919) % 86400
                rep = gen.REPS[k % 3]
                off = gen.OFFSET_POOL[k % 6]
                local = inst + (off[0] * 60 + off[1]) * 60
                rd, sod = divmod(local, 86400)
                pkw = gen.date_kwargs(MODE, rep, rd)
                pkw.update({"hour_of_day": sod // 3600,
                            "minute_of_hour": sod % 3600 // 60,
                            "second_of_minute": sod % 60})
                pkw.update(gen.zone_kwargs(off))
                yield {"op": "add", "order": "t+p" if k % 2 else "p+t",
                       "t": t, "p": pkw, "t_zone": None}


def workload(ctx, repo):
    rng = ctx.rng
    for case in structured_cases(ctx):
        ctx.case = case
        ctx.ev("cases.structured")
        run_case(ctx, repo, case)
    n = 3200 if ctx.tier == "quick" else 12000
    for k in range(n):
        tdesc, kw = rand_trunc(rng)
        y = rng.choice((2000, 2001, 2003, 2004, 2015, 2016, 1999, 2100, 1900,
                        gen.rand_year(rng, 1, 9000)))
        # a full point around a match of t
        v = rng.random()
        off = gen.rand_offset(rng, wide=(k % 5 == 0))
        rd = gen.rand_rd(rng, MODE, y, bias=0.5)
        if v < 0.5:
            spec = {"h": kw.get("hour_of_day"),
                    "mi": kw.get("minute_of_hour"),
                    "s": kw.get("second_of_minute"),
                    "dom": kw.get("day_of_month"),
                    "doy": kw.get("day_of_year"),
                    "dow": kw.get("day_of_week"),
                    "week": kw.get("week_of_year"), "mon": None,
                    "year": None}
            toff = off if "time_zone_hour" not in kw else (
                kw["time_zone_hour"], kw["time_zone_minute"])
            m = next_match(spec, rd * 86400 + rng.randrange(86400))
            if m is not None:
                inst = m - (toff[0] * 60 + toff[1]) * 60 + rng.choice(
                    (0, 0, -1, 1, -60, 59))
            else:
                inst = rd * 86400
        else:
            inst = rd * 86400 + rng.randrange(86400)
        pkw = gen.tp_from_instant(rng, MODE, inst, offset=off,
                                  allow_2400=False)
        if k % 12 == 5 and "t" in tdesc:
            # p written with decimal hours (a quarter-hour instant), in an
            # offset a multiple of 15 minutes, t in a zone minutes away
            qoff = rng.choice(((0, 0), (5, 30), (0, 45), (-3, -30), (1, 0)))
            grain = (900, 450, 225)[(k // 12) % 3]
            inst_q = inst - inst % 900 + (grain if grain < 900 else 0) * \
                (1 + 2 * ((k // 36) % 2))
            pkw = gen.tp_from_instant(rng, MODE, inst_q, offset=qoff,
                                      allow_2400=False)
            mins = pkw.pop("minute_of_hour")
            secs = pkw.pop("second_of_minute")
            pkw["hour_of_day_decimal"] = (mins * 60 + secs) / 3600.0
            if "t" in tdesc and "time_zone_hour" in tdesc["t"]:
                t_off = rng.choice(((0, 30), (0, 0), (5, 45), (-3, -45)))
                tdesc = dict(tdesc)
                tdesc["t"] = dict(tdesc["t"], time_zone_hour=t_off[0],
                                  time_zone_minute=t_off[1])
                tdesc["t_zone"] = list(t_off)
        case = {"op": "add", "order": "t+p" if k % 3 else "p+t", "p": pkw}
        case.update(tdesc)
        ctx.case = case
        if k % 397 == 0:
            ctx.sample(case)
        run_case(ctx, repo, case)
        if k % 4 == 0:
            # history: the same t applied to the same instant written in
            # another offset / representation
            off2 = gen.rand_offset(rng, wide=False)
            twin = dict(case)
            twin["p"] = gen.tp_from_instant(rng, MODE, inst, offset=off2,
                                            allow_2400=False)
            ctx.case = twin
            ctx.ev("cases.twin")
            run_case(ctx, repo, twin)
