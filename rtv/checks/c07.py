"""C07 - the parser decodes every documented date-time form to exactly its
fields.

The oracle spells chosen field values with the reference encoder
(rtv.isotext, written from the ISO 8601 forms, never consulting
parser_spec); a monitor on TimePointParser.parse compares what the real
parser returned (or raised) with the fields that were spelled."""
import os
import zlib
import time as _time
from fractions import Fraction as F
from unittest import mock

from .. import gen
from .. import isotext as T
from .. import refmodel as R

RULE = ("cases = (parser configuration, expression text spelled by the "
        "reference encoder from chosen fields, expectation); the full cross "
        "product date form (calendar/ordinal/week x basic/extended x plain/"
        "expanded, complete and reduced) x time form (hh, hhmm, hhmmss, "
        "decimal on the last unit with comma or point, 24:00) x zone form "
        "(none, Z, +-hh, +-hhmm / +-hh:mm), value sweeps over every month, "
        "day, day-of-year, week, weekday, hour, minute, second and offset, "
        "basic-only parsers, basic/extended mixtures, truncated date x time "
        "forms; a case is non-trivial when at least one spelled field "
        "differs from its default (1 January / 00:00:00 / the parser's "
        "assumed zone); distinct by (configuration, text)")
DECIDING = ["parse.post"]
MIN_EVALS = {"parse.post": 8000}
ASSUMPTIONS = [
    "decimal fractions are compared with the exact decimal value within "
    "1e-9 of the unit (binary float storage)",
    "negative zero (year -0000.., zone -00[:00]) may be re-dumped with '+'; "
    "trailing zeros of a decimal fraction may disappear; fractions longer "
    "than 6 digits are not required to re-dump identically",
]
MODE = "gregorian"


# texts of every family of date form (complete, reduced incl. century-only,
# expanded, truncated, week/ordinal), read by a parser before the case's own
PRIMERS = ("", "+0019", "-0019", "19", "+001985", "1985-04", "1985", "85",
           "-8504", "-85", "--0412", "---12", "-W155", "-W-5", "1985-W15",
           "1985W155", "1985102", "-102", "T1015", "T-15", "+0019850412",
           "-001985-102", "1985-04-12T10:15:30+04:00", "19850412T101530Z",
           "garbage", "")


class _Cfg:
    """parser configurations (JSON-able key -> real parser, cached)"""

    def __init__(self, repo):
        self.repo = repo
        self.cache = {}

    def get(self, key):
        k = repr(sorted(key.items()))
        if k not in self.cache:
            kw = dict(key)
            if kw.get("assumed_time_zone") is not None:
                kw["assumed_time_zone"] = tuple(kw["assumed_time_zone"])
            if len(k) % 3 == 0:
                # the documented positional order of the constructor
                self.cache[k] = self.repo.parsers.TimePointParser(
                    kw.get("num_expanded_year_digits", 2),
                    kw.get("allow_truncated", False),
                    kw.get("allow_only_basic", False),
                    kw.get("assumed_time_zone"),
                    kw.get("default_to_unknown_time_zone", False),
                    kw.get("dump_format"))
            else:
                self.cache[k] = self.repo.parsers.TimePointParser(**kw)
        return self.cache[k]


def install(ctx, repo, probes):
    ctx.cfgs = _Cfg(repo)
    ctx.expect = None

    def post(snap, args, kwargs, p, exc):
        e = ctx.expect
        if e is None:
            return
        ctx.ev("parse.post")
        text = args[1]
        tag = e["tag"]
        if e["kind"] == "reject":
            if exc is None:
                ctx.violation("accepted." + tag, "%r was accepted by parser "
                              "%r as %r but must be refused (%s)" % (
                                  text, e["cfg"], R.tp_key(p), e["why"]),
                              text=text)
            elif not isinstance(exc, ValueError):
                ctx.violation("reject.type", "%r raised %r" % (text, exc))
            else:
                ctx.cls(tag)
            return
        if exc is not None:
            ctx.violation("rejected." + tag, "well-formed %r was rejected by "
                          "parser %r: %r" % (text, e["cfg"], exc), text=text)
            return
        prob = None
        if e["kind"] == "full":
            if p._truncated:
                prob = "result is truncated"
            else:
                rep, date = R.tp_date(p)
                if rep != e["rep"] or tuple(date) != tuple(e["date"]):
                    prob = "date decoded as %s %r" % (rep, date)
                else:
                    got = (p._hour_of_day, p._minute_of_hour,
                           p._second_of_minute)
                    for g, w, unit in zip(got, e["time"], "hms"):
                        if (g is None) != (w is None):
                            prob = "time form differs: %r" % (got,)
                            break
                        if g is not None and abs(F(g) - F(w[0], w[1])) > \
                                F(1, 10**9):
                            prob = "%s decoded as %r" % (unit, g)
                            break
                if prob is None:
                    tz = p._time_zone
                    if tz._unknown or (tz._hours, tz._minutes) != tuple(
                            e["zone"]):
                        prob = "zone decoded as %r (unknown=%r)" % (
                            (tz._hours, tz._minutes), tz._unknown)
                if prob is None and not R.tp_valid(MODE, p):
                    prob = "result is not a valid TimePoint"
                if prob is None and e.get("nexp_expected") is not None and \
                        p._num_expanded_year_digits != e["nexp_expected"]:
                    prob = "num_expanded_year_digits %r" % (
                        p._num_expanded_year_digits,)
        else:   # truncated
            if not p._truncated:
                prob = "result is not truncated"
            else:
                props = p.get_truncated_properties()
                want = e["props"]
                if set(props) != set(want):
                    prob = "truncated properties %r" % (props,)
                else:
                    for k, w in want.items():
                        if abs(F(props[k]) - F(w[0], w[1])) > F(1, 10**9):
                            prob = "%s decoded as %r" % (k, props[k])
                tz = p._time_zone
                if prob is None:
                    if e["zone"] is None:
                        if not tz._unknown:
                            prob = "zone should be unknown, got %r" % (
                                (tz._hours, tz._minutes),)
                    elif tz._unknown or (tz._hours, tz._minutes) != tuple(
                            e["zone"]):
                        prob = "zone decoded as %r (unknown=%r)" % (
                            (tz._hours, tz._minutes), tz._unknown)
        if prob:
            ctx.violation("decode." + tag, "%r parsed by %r: %s; expected %r"
                          % (text, e["cfg"], prob,
                             {k: v for k, v in e.items()
                              if k in ("rep", "date", "time", "zone",
                                       "props")}), text=text)
            return
        ctx.cls(tag)
        if kwargs.get("dump_as_parsed") and e.get("redump") is not None:
            ctx.ev("redump.check")
            ctx.in_oracle -= 1      # str() below is an observed execution
            try:
                try:
                    out = str(p)
                except Exception as exc2:
                    out = "<raised %r>" % (exc2,)
            finally:
                ctx.in_oracle += 1
            if out != e["redump"]:
                ctx.violation("redump." + tag, "dump_as_parsed of %r gives "
                              "%r, expected %r" % (text, out, e["redump"]),
                              text=text)
    probes.wrap(repo.parsers.TimePointParser, "parse", post)


# --------------------------------------------------------------------------
# spelling

def _frac_digits(rng):
    k = rng.choice((1, 1, 2, 3, 6, 6, 7, 9))
    v = rng.random()
    if v < 0.2:
        return rng.choice(("5", "0", "25", "999999", "000001", "50", "10"))
    return "".join(rng.choice("0123456789") for _ in range(k))


def _norm_frac(digits):
    d = digits.rstrip("0")
    return d or "0"


TFORMS = ("hms", "hmsf", "hmf", "hf", "hm", "h")


def spell_time(rng, tform, ext, value=None, point=None):
    """-> (text, expected stored (h, m, s) as (num, den) or None,
    redump-text or None when re-dump is not demanded)"""
    h, m, s = value if value else (rng.randrange(24), rng.randrange(60),
                                   rng.randrange(60))
    point = point or rng.choice(",,.")
    one = lambda x: (x, 1)
    if tform == "hms":
        return T.enc_time(h, m, s, ext), (one(h), one(m), one(s)), \
            T.enc_time(h, m, s, ext)
    if tform == "hm":
        return T.enc_time(h, m, None, ext), (one(h), one(m), one(0)), \
            T.enc_time(h, m, None, ext)
    if tform == "h":
        return T.enc_time(h, None, None, ext), (one(h), one(0), one(0)), \
            T.enc_time(h, None, None, ext)
    digits = _frac_digits(rng)
    fr = F(int(digits), 10 ** len(digits))
    red_ok = len(digits) <= 6
    nd = _norm_frac(digits)

    def fx(base):
        v = F(base) + fr
        return (v.numerator, v.denominator)
    if tform == "hmsf":
        txt = T.enc_time(h, m, s, ext, digits, point)
        return txt, (one(h), one(m), fx(s)), \
            (T.enc_time(h, m, s, ext, nd, point) if red_ok else None)
    if tform == "hmf":
        txt = T.enc_time(h, m, None, ext, digits, point)
        return txt, (one(h), fx(m), None), \
            (T.enc_time(h, m, None, ext, nd, point) if red_ok else None)
    txt = T.enc_time(h, None, None, ext, digits, point)
    return txt, (fx(h), None, None), \
        (T.enc_time(h, None, None, ext, nd, point) if red_ok else None)


def spell_zone(rng, zform, ext, off=None):
    """-> (text, expected (h, m) or None, redump text)"""
    if zform == "none":
        return "", None, ""
    if zform == "Z":
        return "Z", (0, 0), "Z"
    if off is None:
        off = gen.rand_offset(rng)
    if zform == "hh":
        off = (off[0], 0)
    txt = T.enc_zone(off, zform, ext)
    red = txt
    if off == (0, 0):
        if rng.random() < 0.5:
            txt = "-" + txt[1:]       # negative zero
        red = "+" + txt[1:]
    return txt, tuple(off), red


def pick_date(rng, rep, nexp, value=None):
    """valid (gregorian) date in representation rep whose year fits"""
    lim = 10 ** (4 + nexp) - 1
    for _ in range(50):
        if value is not None:
            return value
        if nexp:
            y = rng.choice((0, -1, 1, -400, 400, -800, 2000, lim, -lim,
                            rng.randint(-lim, lim), rng.randint(-9999, 9999)))
        else:
            y = gen.rand_year(rng, 0, 9999)
        rd = gen.rand_rd(rng, MODE, y, bias=0.5)
        date = R.rd_to_date(MODE, rep, rd)
        if (abs(date[0]) <= lim if nexp else 0 <= date[0] <= 9999):
            return date
    raise RuntimeError("no date")


def cfg_key(rng, nexp=None, basic=False, trunc=False, zone_mode=None):
    key = {"num_expanded_year_digits": nexp if nexp is not None
           else rng.choice((0, 1, 2, 2, 3))}
    if basic:
        key["allow_only_basic"] = True
    if trunc:
        key["allow_truncated"] = True
    zm = zone_mode or rng.choice(("assumed", "assumed", "unknown", "local",
                                  "both"))
    if zm == "assumed" and rng.random() < 0.15:
        zm = "both"
    if zm in ("assumed", "both"):
        key["assumed_time_zone"] = list(gen.rand_offset(rng))
    if zm in ("unknown", "both"):
        # (with an assumed zone as well, the assumed zone takes precedence)
        key["default_to_unknown_time_zone"] = True
    if rng.random() < 0.12:
        # a parser-wide dump format: parse(..., dump_as_parsed=True) still
        # records the form the text was written in
        key["dump_format"] = rng.choice(("CCYYMMDDThhmmZ", "CCYY-DDDThh",
                                         "CCYY-MM-DDThh:mm:ss+hh:mm"))
    return key


def default_zone(key, local):
    if key.get("assumed_time_zone") is not None:
        return tuple(key["assumed_time_zone"])
    if key.get("default_to_unknown_time_zone"):
        return (0, 0)
    return tuple(local)


def make_full(rng, rep, ext, expanded, tform, zform, cfg=None, date=None,
              tvalue=None, off=None, local=(0, 0)):
    cfg = cfg or cfg_key(rng, nexp=(rng.choice((1, 2, 2, 3)) if expanded
                                    else None))
    nexp = cfg["num_expanded_year_digits"] if expanded else 0
    date = pick_date(rng, rep, nexp, date)
    dtxt = T.enc_date(rep, date, ext, nexp)
    dred = dtxt
    if nexp and date[0] == 0 and rng.random() < 0.5:
        dtxt = "-" + dtxt[1:]
    if tvalue is None and rng.random() < 0.08 and tform in ("hms", "hm",
                                                            "h"):
        tvalue = (24, 0, 0)
    ttxt, texp, tred = spell_time(rng, tform, ext, tvalue)
    ztxt, zexp, zred = spell_zone(rng, zform, ext, off)
    if zexp is None:
        zexp = default_zone(cfg, local)
    text = dtxt + "T" + ttxt + ztxt
    tag = "full/%s/%s/%s/%s/%s" % (rep, "ext" if ext else "basic",
                                   "exp" if expanded else "plain", tform,
                                   zform)
    return {"op": "parse", "cfg": cfg, "text": text, "local": list(local),
            "expect": {"kind": "full", "tag": tag, "cfg": cfg, "rep": rep,
                       "date": list(date), "time": texp, "zone": list(zexp),
                       "nexp_expected": (nexp if expanded else None),
                       "redump": (dred + "T" + tred + zred)
                       if tred is not None else None}}


REDUCED = (  # (name, ext?, expanded?, spell(date) -> text, rep, fields used)
    ("CCYY-MM", None, False), ("CCYY", False, False), ("CC", False, False),
    ("+XCCYY-MM", None, True), ("+XCCYY", False, True), ("+XCC", False, True),
    ("CCYYWww", False, False), ("+XCCYYWww", False, True),
    ("CCYY-Www", True, False), ("+XCCYY-Www", True, True),
    ("CCYYMMDD", False, False), ("CCYY-MM-DD", True, False),
    ("CCYYDDD", False, False), ("CCYY-DDD", True, False),
    ("CCYYWwwD", False, False), ("CCYY-Www-D", True, False),
    ("+XCCYYMMDD", False, True), ("+XCCYY-DDD", True, True),
    ("+XCCYY-Www-D", True, True),
)


def make_dateonly(rng, name, local=(0, 0), basic=False):
    expanded = name.startswith("+X")
    cfg = cfg_key(rng, nexp=(rng.choice((1, 2, 2, 3)) if expanded else None),
                  basic=basic)
    nexp = cfg["num_expanded_year_digits"] if expanded else 0
    core = name[2:] if expanded else name
    lim = 10 ** (4 + nexp) - 1
    if "W" in core:
        rep = "week"
        date = pick_date(rng, "week", nexp)
        if not core.endswith("D"):
            date = (date[0], date[1], 1)
        ext = "-" in core
        if core.endswith("D"):
            text = T.enc_date("week", date, ext, nexp)
        else:
            text = T.enc_year(date[0], nexp) + ("-" if ext else "") + \
                "W%02d" % date[1]
    elif "DDD" in core:
        rep = "ord"
        date = pick_date(rng, "ord", nexp)
        text = T.enc_date("ord", date, "-" in core, nexp)
    elif core in ("CCYYMMDD", "CCYY-MM-DD"):
        rep = "cal"
        date = pick_date(rng, "cal", nexp)
        text = T.enc_date("cal", date, "-" in core, nexp)
    elif core == "CCYY-MM":
        rep = "cal"
        d0 = pick_date(rng, "cal", nexp)
        date = (d0[0], d0[1], 1)
        text = T.enc_year(date[0], nexp) + "-%02d" % date[1]
    elif core == "CCYY":
        rep = "cal"
        date = (pick_date(rng, "cal", nexp)[0], 1, 1)
        text = T.enc_year(date[0], nexp)
    else:   # CC
        rep = "cal"
        c = rng.randint(-(lim // 100), lim // 100) if nexp else \
            rng.randint(0, 99)
        if nexp and c < 0 and cfg.get("allow_truncated"):
            c = -c
        date = (c * 100, 1, 1)
        ys = T.enc_year(abs(c) * 100, nexp)
        text = ("-" if c < 0 else ("+" if nexp else "")) + \
            ys.lstrip("+-")[:-2]
    red = text
    if nexp and date[0] == 0:
        red = "+" + text[1:]
    zexp = default_zone(cfg, local)
    tag = "dateonly/%s" % name
    return {"op": "parse", "cfg": cfg, "text": text, "local": list(local),
            "expect": {"kind": "full", "tag": tag, "cfg": cfg, "rep": rep,
                       "date": list(date),
                       "time": ((0, 1), (0, 1), (0, 1)), "zone": list(zexp),
                       "nexp_expected": (nexp if expanded else None),
                       "redump": red}}


# truncated date forms: (name, ext, fields)
TRUNC_DATES = (
    ("-YYMM", False, ("yoc", "mon")), ("-YY", False, ("yoc",)),
    ("--MMDD", False, ("mon", "dom")), ("--MM", False, ("mon",)),
    ("---DD", False, ("dom",)), ("YYMMDD", False, ("yoc", "mon", "dom")),
    ("YYDDD", False, ("yoc", "doy")), ("-DDD", False, ("doy",)),
    ("YYWwwD", False, ("yoc", "week", "dow")), ("YYWww", False,
                                                ("yoc", "week")),
    ("-zWwwD", False, ("yod", "week", "dow")), ("-zWww", False,
                                                ("yod", "week")),
    ("-WwwD", False, ("week", "dow")), ("-Www", False, ("week",)),
    ("-W-D", False, ("dow",)),
    ("-YY-MM", True, ("yoc", "mon")), ("--MM-DD", True, ("mon", "dom")),
    ("YY-MM-DD", True, ("yoc", "mon", "dom")), ("YY-DDD", True,
                                                ("yoc", "doy")),
    ("YY-Www-D", True, ("yoc", "week", "dow")), ("YY-Www", True,
                                                 ("yoc", "week")),
    ("-z-WwwD", True, ("yod", "week", "dow")), ("-z-Www", True,
                                                ("yod", "week")),
    ("-Www-D", True, ("week", "dow")),
    ("", None, ()),
)
TRUNC_TIMES = ("-mmss", "-mm", "--ss", "-mmssf", "-mmf", "--ssf",
               "hms", "hm", "h", "hmsf", "hmf", "hf", "")
PROP = {"yoc": "year_of_century", "yod": "year_of_decade",
        "mon": "month_of_year", "dom": "day_of_month", "doy": "day_of_year",
        "week": "week_of_year", "dow": "day_of_week"}


def make_trunc(rng, dform, tform, zform, local=(0, 0)):
    name, ext, fields = dform
    vals = {}
    year = None
    if "yoc" in fields:
        year = vals["yoc"] = rng.choice((0, 4, 85, 99, rng.randrange(100)))
    if "yod" in fields:
        year = vals["yod"] = rng.randrange(10)
    if "mon" in fields:
        vals["mon"] = rng.randint(1, 12)
    if "dom" in fields:
        if "mon" in fields:
            mx = R.month_len(MODE, year, vals["mon"]) if year is not None \
                else R.M366[vals["mon"] - 1]
        else:
            mx = 31
        vals["dom"] = rng.choice((1, mx, rng.randint(1, mx)))
    if "doy" in fields:
        mx = R.year_len(MODE, year) if year is not None else 366
        vals["doy"] = rng.choice((1, mx, rng.randint(1, mx)))
    if "week" in fields:
        mx = R.weeks_in_year(MODE, year) if year is not None else 53
        vals["week"] = rng.choice((1, mx, rng.randint(1, mx)))
    if "dow" in fields:
        vals["dow"] = rng.randint(1, 7)
    text = name
    text = text.replace("YY", "%02d" % vals.get("yoc", 0)) \
        if "yoc" in fields else text
    if "yod" in fields:
        text = text.replace("z", "%d" % vals["yod"])
    if "mon" in fields:
        text = text.replace("MM", "%02d" % vals["mon"])
    if "doy" in fields:
        text = text.replace("DDD", "%03d" % vals["doy"])
    if "dom" in fields:
        text = text.replace("DD", "%02d" % vals["dom"])
    if "week" in fields:
        text = text.replace("ww", "%02d" % vals["week"])
    if "dow" in fields:
        text = text[:-1] + "%d" % vals["dow"] if text.endswith("D") else text
    props = {PROP[k]: (v, 1) for k, v in vals.items()}
    redump = text
    # time part
    if tform:
        text_ext = rng.random() < 0.5 if ext is None else ext
        if tform.startswith("-"):
            mm, ss = rng.randrange(60), rng.randrange(60)
            digits = _frac_digits(rng) if tform.endswith("f") else None
            point = rng.choice(",,.")
            base = tform.rstrip("f")
            sep = ":" if text_ext else ""
            if base == "-mmss":
                ttxt = "-%02d%s%02d" % (mm, sep, ss)
                props["minute_of_hour"] = (mm, 1)
                last = ("second_of_minute", ss)
            elif base == "-mm":
                ttxt = "-%02d" % mm
                last = ("minute_of_hour", mm)
            else:
                ttxt = "--%02d" % ss
                last = ("second_of_minute", ss)
            tred = ttxt
            if digits:
                v = F(last[1]) + F(int(digits), 10 ** len(digits))
                props[last[0]] = (v.numerator, v.denominator)
                tred = ttxt + point + _norm_frac(digits) \
                    if len(digits) <= 6 else None
                ttxt += point + digits
            else:
                props[last[0]] = (last[1], 1)
        else:
            ttxt, texp, tred = spell_time(rng, tform, text_ext)
            for k, w in zip(("hour_of_day", "minute_of_hour",
                             "second_of_minute"), texp):
                if w is not None:
                    props[k] = w
            # a truncated point does not default omitted lower units
            if tform == "hm":
                props.pop("second_of_minute")
            if tform == "h":
                props.pop("minute_of_hour")
                props.pop("second_of_minute")
        ztxt, zexp, zred = spell_zone(rng, zform, text_ext)
        text += "T" + ttxt + ztxt
        redump = (redump + "T" + tred + zred) if tred is not None else None
    else:
        zexp = None
    cfg = cfg_key(rng, trunc=True,
                  zone_mode=rng.choice(("unknown", "unknown", "assumed")))
    if zexp is None:
        zexp = None if (cfg.get("default_to_unknown_time_zone") and
                        cfg.get("assumed_time_zone") is None) else \
            default_zone(cfg, local)
    tag = "trunc/%s/%s" % (name or "T", tform or "date")
    return {"op": "parse", "cfg": cfg, "text": text, "local": list(local),
            "expect": {"kind": "trunc", "tag": tag, "cfg": cfg,
                       "props": props,
                       "zone": list(zexp) if zexp is not None else None,
                       "redump": redump}}


def make_reject(rng, what):
    if what == "basic-only":
        rep = rng.choice(gen.REPS)
        tform = rng.choice(TFORMS + ("none",))
        cfg = cfg_key(rng, nexp=2, basic=True)
        if tform == "none":
            name = {"cal": "CCYY-MM-DD", "ord": "CCYY-DDD",
                    "week": rng.choice(("CCYY-Www-D", "CCYY-Www"))}[rep]
            case = make_dateonly(rng, name)
        else:
            case = make_full(rng, rep, True, rng.random() < 0.3, tform,
                             rng.choice(("none", "Z", "hh", "hhmm")))
        case["cfg"] = cfg
        case["expect"] = {"kind": "reject", "tag": "reject/basic-only",
                          "cfg": cfg, "why": "extended-only form given to a "
                                             "basic-only parser"}
        return case
    # mixtures
    rep = rng.choice(gen.REPS)
    date = pick_date(rng, rep, 0)
    cfg = cfg_key(rng)
    if what == "mix-zone":
        # date and time in one notation, an offset with minutes in the other
        ext = rng.random() < 0.5
        tform = rng.choice(("hms", "hmsf", "hmf", "hm"))
        ttxt = spell_time(rng, tform, ext)[0]
        off = rng.choice(((5, 30), (-5, -30), (1, 0), (-1, 0), (0, 45),
                          (0, -45), (13, 45), (-11, -15)))
        text = T.enc_date(rep, date, ext) + "T" + ttxt + \
            T.enc_zone(off, "hhmm", not ext)
        return {"op": "parse", "cfg": cfg, "text": text, "local": [0, 0],
                "expect": {"kind": "reject", "tag": "reject/" + what,
                           "cfg": cfg,
                           "why": "offset spelled in the other notation"}}
    if what == "mix-basic-date-ext-time":
        tform = rng.choice(("hms", "hmsf", "hmf", "hm"))
        ttxt = spell_time(rng, tform, True)[0]
        text = T.enc_date(rep, date, False) + "T" + ttxt
    else:
        tform = rng.choice(("hms", "hmsf", "hmf", "hm"))
        ttxt = spell_time(rng, tform, False)[0]
        text = T.enc_date(rep, date, True) + "T" + ttxt
    # any zone, of either sign, spelled in either notation: the mixture
    # stays ill-formed
    zform = rng.choice(("none", "Z", "hh", "hhmm", "hhmm"))
    off = rng.choice(((-1, -30), (-5, 0), (3, 0), (5, 30), (-11, -45),
                      gen.rand_offset(rng)))
    if abs(off[0]) > 23:
        off = (-2, 0)
    text += spell_zone(rng, zform, rng.random() < 0.5, off=off)[0]
    return {"op": "parse", "cfg": cfg, "text": text, "local": [0, 0],
            "expect": {"kind": "reject", "tag": "reject/" + what, "cfg": cfg,
                       "why": "basic and extended notation mixed"}}


def set_mode_global(mode):
    """the spelling helpers and the monitor read the module-level MODE"""
    globals()["MODE"] = mode


def run_case(ctx, repo, case):
    set_mode_global(case.get("mode", "gregorian"))
    repo.set_mode(MODE, case)
    try:
        _run_case(ctx, repo, case)
    finally:
        repo.set_mode("gregorian")
        set_mode_global("gregorian")


def _run_case(ctx, repo, case):
    parser = ctx.cfgs.get(case["cfg"])
    local = tuple(case.get("local", (0, 0)))
    secs = (local[0] * 60 + local[1]) * 60
    ctx.expect = case["expect"]
    nontrivial = case["expect"].get("kind") != "reject"
    try:
        use_real_tz = case.get("real_tz")
        if use_real_tz:
            old = os.environ.get("TZ")
            os.environ["TZ"] = use_real_tz
            _time.tzset()
        m = mock.Mock(spec=_time)
        m.timezone = -secs
        # the system zone may define a daylight rule that is not in effect
        # (or be in effect): case["dst"] = [altzone seconds, daylight, isdst]
        dst = case.get("dst") or [secs, 0, 0]
        m.altzone = -dst[0]
        m.daylight = dst[1]
        m.localtime.return_value = mock.Mock(tm_isdst=dst[2])
        try:
            patcher = None
            if not use_real_tz:
                patcher = mock.patch.object(repo.timezone, "time", m)
                patcher.start()
            primer = case.get("primer")
            if primer is None and case["expect"].get("kind") != "reject":
                primer = PRIMERS[zlib.crc32(case["text"].encode()) %
                                 len(PRIMERS)]
            for dap in (False, True):
                if primer:
                    # what the same parser object read just before must not
                    # matter (whether it understood it or not)
                    e, ctx.expect = ctx.expect, None
                    try:
                        parser.parse(primer)
                    except ValueError:
                        pass
                    ctx.expect = e
                try:
                    parser.parse(case["text"], dump_as_parsed=dap)
                except ValueError:
                    pass
        finally:
            if patcher:
                patcher.stop()
            if use_real_tz:
                if old is None:
                    os.environ.pop("TZ", None)
                else:
                    os.environ["TZ"] = old
                _time.tzset()
    finally:
        ctx.expect = None
    if nontrivial:
        ctx.nontrivial((sorted(case["cfg"].items()), case["text"]))


REAL_TZ = (("AAA-05:45", (5, 45)), ("BBB3:30", (-3, -30)),
           ("CCC0:30", (0, -30)), ("UTC0", (0, 0)), ("DDD-13:45", (13, 45)))


def workload(ctx, repo):
    rng = ctx.rng
    reps = 12 if ctx.tier == "quick" else 30
    for m in R.MODES:
        ctx.target("mode/" + m)
    i = 0
    # 1. the cross product of complete forms
    for rep in gen.REPS:
        for ext in (False, True):
            for expanded in (False, True):
                for tform in TFORMS:
                    for zform in ("none", "Z", "hh", "hhmm"):
                        tag = "full/%s/%s/%s/%s/%s" % (
                            rep, "ext" if ext else "basic",
                            "exp" if expanded else "plain", tform, zform)
                        ctx.target(tag)
                        for r in range(reps):
                            i += 1
                            if not ctx.mine(i):
                                continue
                            local = rng.choice(((0, 0), (5, 45), (-3, -30),
                                                (0, -30)))
                            mode = R.MODES[r % 4] if r % 3 == 2 \
                                else "gregorian"
                            set_mode_global(mode)
                            case = make_full(rng, rep, ext, expanded, tform,
                                             zform, local=local)
                            case["mode"] = mode
                            set_mode_global("gregorian")
                            ctx.cls("mode/" + mode)
                            if zform == "none" and r % 4 == 2 and \
                                    "assumed_time_zone" not in case["cfg"] \
                                    and not case["cfg"].get(
                                        "default_to_unknown_time_zone"):
                                # a daylight rule exists; in effect or not
                                std = (local[0] * 60 + local[1]) * 60
                                isdst = rng.choice((0, 0, 1, -1))
                                alt = std + rng.choice((3600, 1800, -3600))
                                case["dst"] = [alt, 1, isdst]
                                if isdst == 1:
                                    off = R.split_offset_seconds(alt)
                                    case["expect"]["zone"] = list(off)
                                ctx.cls("local-zone/daylight-rule/%d" % isdst)
                            if zform == "none" and r == 1 and \
                                    "assumed_time_zone" not in case["cfg"] \
                                    and not case["cfg"].get(
                                        "default_to_unknown_time_zone"):
                                tzs, off = rng.choice(REAL_TZ)
                                case["real_tz"] = tzs
                                case["local"] = list(off)
                                case["expect"]["zone"] = list(off)
                            ctx.case = case
                            if i % 389 == 0:
                                ctx.sample({"text": case["text"],
                                            "cfg": case["cfg"],
                                            "tag": tag})
                            run_case(ctx, repo, case)
    # 2. date-only and reduced forms
    for name, _, _ in REDUCED:
        ctx.target("dateonly/%s" % name)
        for r in range(reps * 4):
            i += 1
            if ctx.mine(i):
                case = make_dateonly(rng, name)
                ctx.case = case
                run_case(ctx, repo, case)
    # ... and the same forms given to a basic-only parser: every form the
    # library lists as basic is accepted, the extended-only ones refused
    ctx.target("dateonly/basic-only-accepts", "dateonly/basic-only-refuses")
    for name, ext, _ in REDUCED:
        for r in range(max(2, reps)):
            i += 1
            if not ctx.mine(i):
                continue
            case = make_dateonly(rng, name, basic=True)
            if ext:
                case["expect"] = {
                    "kind": "reject", "tag": "dateonly/basic-only-refuses",
                    "cfg": case["cfg"],
                    "why": "extended-only form given to a basic-only parser"}
            else:
                ctx.cls("dateonly/basic-only-accepts")
            ctx.case = case
            ctx.ev("cases.dateonly-basic-only")
            run_case(ctx, repo, case)
    # 3. value sweeps: every month/day/doy/week/weekday/h/m/s/offset
    if ctx.worker == 0:
        sweeps = []
        for ext in (False, True):
            for mth in range(1, 13):
                for d in (1, R.month_len(MODE, 2000, mth)):
                    sweeps.append(("cal", ext, (2000, mth, d), None, None))
            for d in range(1, 32):
                sweeps.append(("cal", ext, (1999, 1, d), None, None))
            for doy in range(1, 367):
                sweeps.append(("ord", ext, (2004, doy), None, None))
            for w in range(1, 54):
                for dow in range(1, 8):
                    sweeps.append(("week", ext, (2015, w, dow), None, None))
            for h in range(24):
                sweeps.append(("cal", ext, None, (h, 0, 59), None))
            for x in range(60):
                sweeps.append(("cal", ext, None, (23, x, 59 - x), None))
            for h in range(-99, 100):
                mm = abs(h * 7) % 60
                sweeps.append(("ord", ext, None, None,
                               (h, -mm if h < 0 else mm)))
            for mm in range(60):
                sweeps.append(("week", ext, None, None, (0, -mm)))
                sweeps.append(("week", ext, None, None, (0, mm)))
        stride = 4 if ctx.tier == "quick" else 1
        for k, (rep, ext, date, tv, off) in enumerate(sweeps):
            if (k + ctx.seed) % stride:
                continue
            case = make_full(rng, rep, ext, False,
                             "hms" if tv else rng.choice(TFORMS),
                             "hhmm" if off else rng.choice(("Z", "none")),
                             date=date, tvalue=tv, off=off)
            ctx.case = case
            ctx.cls("value-sweep")
            run_case(ctx, repo, case)
        ctx.target("value-sweep")
    # 4. basic-only parsers accept basic forms, refuse extended-only ones
    ctx.target("local-zone/daylight-rule/0", "local-zone/daylight-rule/1",
               "reject/basic-only-truncated")
    ctx.target("reject/basic-only", "reject/mix-basic-date-ext-time",
               "reject/mix-ext-date-basic-time", "basic-only-accepts")
    for r in range(150 * reps):
        i += 1
        if not ctx.mine(i):
            continue
        v = r % 4
        if v == 0:
            case = make_reject(rng, "basic-only")
        elif v == 1 and r % 8 == 1:
            # a basic-only parser that also allows truncated forms must still
            # refuse extended times / zones on truncated or empty dates
            cfg = cfg_key(rng, nexp=2, basic=True, trunc=True)
            date = rng.choice(("", "--0412", "850412", "-W155", "---12"))
            tail = rng.choice(("10:15", "10:15:30", "-15:30", "1015+05:30",
                               "10:15Z", "10:15:30,5"))
            case = {"op": "parse", "cfg": cfg, "text": date + "T" + tail,
                    "local": [0, 0],
                    "expect": {"kind": "reject",
                               "tag": "reject/basic-only-truncated",
                               "cfg": cfg,
                               "why": "extended time/zone given to a "
                                      "basic-only parser"}}
        elif v == 1:
            case = make_reject(rng, "mix-basic-date-ext-time")
        elif v == 2:
            case = make_reject(rng, "mix-ext-date-basic-time")
        else:
            cfg = cfg_key(rng, nexp=2, basic=True)
            case = make_full(rng, rng.choice(gen.REPS), False,
                             rng.random() < 0.3, rng.choice(TFORMS),
                             rng.choice(("none", "Z", "hh", "hhmm")),
                             cfg=cfg)
            ctx.cls("basic-only-accepts")
        ctx.case = case
        run_case(ctx, repo, case)
    ctx.target("reject/mix-zone")
    for r in range(40 * reps):
        i += 1
        if not ctx.mine(i):
            continue
        case = make_reject(rng, "mix-zone")
        ctx.case = case
        ctx.ev("cases.mix-zone")
        run_case(ctx, repo, case)
    # 5. truncated forms
    for dform in TRUNC_DATES:
        for tform in TRUNC_TIMES:
            if not dform[0] and not tform:
                continue
            if dform[0] and tform.startswith("-"):
                # a time with its hour omitted is only documented on its own
                continue
            ctx.target("trunc/%s/%s" % (dform[0] or "T", tform or "date"))
            for r in range(reps):
                i += 1
                if not ctx.mine(i):
                    continue
                zform = rng.choice(("none", "none", "Z", "hh", "hhmm")) \
                    if tform else "none"
                case = make_trunc(rng, dform, tform, zform)
                ctx.case = case
                if i % 97 == 0:
                    ctx.sample({"text": case["text"], "cfg": case["cfg"],
                                "props": case["expect"]["props"]})
                run_case(ctx, repo, case)
                if not tform and r < 2:
                    # a date-only truncated form right after a century-only
                    # (expanded) year, whose digits it could be mistaken for
                    for primer in ("+0019", "-0019", "+019", "-019", "19",
                                   "-19", "+00019"):
                        # (with the number of extra year digits under which
                        # the primer is a century: 5 characters = 2, 4 = 1)
                        nexp = {5: 2, 4: 1, 6: 3}.get(len(primer))
                        cfg2 = dict(case["cfg"])
                        if nexp is not None:
                            cfg2["num_expanded_year_digits"] = nexp
                        c2 = dict(case, primer=primer, cfg=cfg2,
                                  expect=dict(case["expect"], cfg=cfg2))
                        ctx.case = c2
                        ctx.ev("cases.primed-truncated")
                        run_case(ctx, repo, c2)
    # 6. complete forms through a parser that also allows truncated forms
    for r in range(100 * reps):
        i += 1
        if not ctx.mine(i):
            continue
        cfg = cfg_key(rng, nexp=rng.choice((0, 2)), trunc=True)
        ext = rng.random() < 0.5
        case = make_full(rng, rng.choice(gen.REPS), ext, False,
                         rng.choice(TFORMS),
                         rng.choice(("none", "Z", "hh", "hhmm")), cfg=cfg)
        ctx.case = case
        run_case(ctx, repo, case)
