"""C14 - recurrences are values: shifting, equality, hashing, text round trip.

Monitors: postconditions on TimeRecurrence.__add__/__sub__ (same
repetitions and interval; every point of the series moved by the shift, read
from the real iterators of operand and result), recording wrappers on
__eq__/__hash__/__str__ and TimeRecurrenceParser.parse.  The workload drives
(r+d)-d, one-component-different siblings, re-spelled twins and the text
round trip on the real operators with the monitors attached."""
import itertools

from fractions import Fraction as F

from .. import gen
from .. import recgen
from .. import refmodel as R

RULE = ("cases = recurrence descriptions as in C12 (incl. single-point ones "
        "in each notation) x exact shift durations of either sign; sibling "
        "recurrences differing in exactly one of repetitions / start / end / "
        "interval (by one second); re-spelled twins (anchors in another "
        "zone/representation at the same instants, interval in other units); "
        "text round trip for parser-producible recurrences; non-trivial = "
        "the shift is non-zero or the pair differs in spelling; distinct by "
        "(description, shift or variant)")
RUN_REPO_SUITE = True   # thorough tier: repo tests under these monitors
DECIDING = ["shift.post", "roundtrip", "siblings", "twins", "inverse"]
MIN_EVALS = {"shift.post": 1500, "roundtrip": 600, "siblings": 600,
             "twins": 300, "inverse": 600}
PREFIX = 12


def _series(rec, k=PREFIX):
    return list(itertools.islice(iter(rec), k))


def _rk(rec):
    def k(x):
        return None if x is None else R.tp_key(x)
    return (rec._format_number, rec._repetitions, k(rec._start_point),
            k(rec._end_point),
            None if rec._duration is None else R.dur_key(rec._duration))


def _usable(rec):
    for x in (rec._start_point, rec._end_point):
        # (whole seconds, or fractions that are small binary fractions and so
        # exact in the library's floats: 06:30,5 / 06,125)
        if x is not None and (x._truncated or x._hour_of_day == 24 or
                              not (R.tp_is_integral(x) or
                                   (R.tp_is_dyadic(x, 16) and
                                    R.tp_offset_minutes(x) % 15 == 0))):
            return False
    d = rec._duration
    return d is None or R.dur_is_integral(d)


def install(ctx, repo, probes):
    TR = repo.TimeRecurrence

    def make_shift(sign, name):
        def pre(args, kwargs):
            r = args[0]
            d = args[1] if len(args) > 1 else None
            if not isinstance(d, repo.Duration) or not _usable(r) or \
                    not R.dur_is_integral(d):
                return None
            mode = R.canon(repo.CALENDAR.mode)
            return (mode, [R.tp_instant(mode, p) for p in _series(r)],
                    _rk(r))

        def post(snap, args, kwargs, res, exc):
            if snap is None:
                return
            mode, before, rk = snap
            r, d = args[0], args[1]
            ctx.ev("shift.post")
            if exc is not None:
                ctx.violation("shift.raised", "%s of %s by %r raised %r" % (
                    name, rk, R.dur_key(d), exc))
                return
            prob = None
            if type(res) is not TR:
                prob = "result is not a TimeRecurrence"
            elif res._repetitions != r._repetitions:
                prob = "repetitions changed to %r" % (res._repetitions,)
            elif (res._duration is None) != (r._duration is None) or (
                    r._duration is not None and
                    (res._duration == r._duration) is not True):
                prob = "interval changed"
            else:
                after = [R.tp_instant(mode, p) for p in _series(res)]
                exact_iv = r._duration is None or \
                    R.dur_is_exact(r._duration)
                if R.dur_is_exact(d):
                    shift = sign * R.dur_len(d)
                    if exact_iv:
                        # (decimal anchors: when the shift is no binary
                        # fraction of the anchor's last unit - quarter
                        # minutes, sixteenths of an hour - the library's
                        # floats round the result and a bounded series may
                        # even lose its last point - C12's finding
                        # c12_decimal_anchor_float_drop; nothing is decided)
                        grain = {"hm": 15, "h": 225}
                        if any(shift % grain.get(R.tp_form(x), 1)
                               for x in (r._start_point, r._end_point)
                               if x is not None and
                               not R.tp_is_integral(x)):
                            return
                        if after != [x + shift for x in before]:
                            prob = "series not moved by %s s: %r -> %r" % (
                                shift, before[:3], after[:3])
                    else:
                        # month/year interval: the given anchor(s) move by d
                        names = {1: ("_start_point", "_second_point"),
                                 3: ("_start_point",),
                                 4: ("_end_point",)}[r._format_number]
                        for nm in names:
                            a0, a1 = getattr(r, nm), getattr(res, nm, None)
                            if a1 is None or R.tp_instant(mode, a1) != \
                                    R.tp_instant(mode, a0) + shift:
                                prob = "anchor %s not moved by %s s" % (
                                    nm, shift)
                elif len(after) != len(before) and exact_iv:
                    prob = "number of points changed"
            if prob:
                ctx.violation("shift." + name, "%s of %s by %r: %s; result "
                              "%s" % (name, rk, R.dur_key(d), prob,
                                      _rk(res) if type(res) is TR else res))
            else:
                single = r._repetitions == 1 or r._duration is None
                ctx.cls("shift/fmt%s/%s" % (rk[0], "single" if single
                                            else "series"))
        return pre, post
    for sign, name in ((1, "__add__"), (-1, "__sub__")):
        pre, post = make_shift(sign, name)
        probes.wrap(TR, name, post, pre)

    def count(name):
        def post(snap, args, kwargs, res, exc):
            ctx.ev(name)
        return post
    probes.wrap(TR, "__eq__", count("eq.seen"))
    probes.wrap(TR, "__hash__", count("hash.seen"))
    probes.wrap(TR, "__str__", count("str.seen"))
    probes.wrap(repo.parsers.TimeRecurrenceParser, "parse",
                count("parse.seen"))
    # another parser object whose (public) point-parser settings were
    # changed after construction: none of the reading parser's business
    ctx.decoy = repo.parsers.TimeRecurrenceParser()
    ctx.decoy.timepoint_parser.dump_format = "CCYY-MM-DD"
    ctx.decoy.timepoint_parser.assumed_time_zone = (5, 30)
    ctx.decoy.duration_parser = None
    ctx.rparser = repo.parsers.TimeRecurrenceParser()
    for fmt in (1, 3, 4):
        ctx.target("shift/fmt%d/single" % fmt, "shift/fmt%d/series" % fmt)
    ctx.target("sibling/repetitions", "sibling/start", "sibling/end",
               "sibling/interval", "sibling/interval-regrouped",
               "sibling/tiny-interval", "sibling/hash-collision",
               "shift/fresh-twin", "roundtrip/anchor-24:00-period-end",
               "roundtrip/tiny-decimal-interval",
               "roundtrip/minute-decimal-interval",
               "twin/zone", "twin/representation", "twin/end-of-day",
               "twin/fraction-units",
               "twin/units", "roundtrip/fmt1", "roundtrip/fmt3",
               "roundtrip/fmt4", "roundtrip/cross-mode")


def _insts(mode, pts):
    return [R.tp_instant(mode, p) for p in pts]


def run_case(ctx, repo, case):
    desc = case["desc"]
    mode = desc["mode"]
    repo.set_mode(mode, case)
    try:
        try:
            rec = recgen.build(repo, desc)
        except ValueError:
            return
        op = case["op"]
        dkey = repr(sorted(desc.items(), key=str))
        if op == "shift":
            d = repo.dur(case["shift"])
            try:
                a = rec + d
                b = d + rec
                c = rec - d
                ctx.ev("inverse")
                back = a - d
            except Exception:
                return      # reported by the monitor on __add__/__sub__
            if R.dur_is_exact(d):
                if (back == rec) is not True or hash(back) != hash(rec):
                    ctx.violation("inverse", "(r+d)-d != r for %s, d=%r: got "
                                  "%s" % (_rk(rec), case["shift"], _rk(back)))
                if (a == b) is not True:
                    ctx.violation("commute", "r+d != d+r for %s" % (
                        _rk(rec),))
                # the shifted recurrence is a value like one built from
                # scratch at the shifted anchor: equal, same hash, and its
                # text reads back as itself
                shift_s = R.dur_len(d)
                fmt = rec._format_number
                anchor = rec._end_point if fmt == 4 else rec._start_point
                if shift_s.denominator == 1 and fmt in (3, 4) and \
                        rec._duration is not None and \
                        rec._repetitions != 1 and \
                        R.tp_is_integral(anchor) and \
                        anchor._hour_of_day != 24 and \
                        anchor._second_of_minute is not None:
                    ctx.ev("shift.fresh-twin")
                    moved = repo.tp(gen.tp_from_instant(
                        __import__("random").Random(1), mode,
                        int(R.tp_instant(mode, anchor) + shift_s),
                        rep=R.tp_rep(anchor),
                        offset=(anchor._time_zone._hours,
                                anchor._time_zone._minutes),
                        allow_2400=False))
                    kw = {"repetitions": rec._repetitions,
                          "duration": rec._duration}
                    kw["end_point" if fmt == 4 else "start_point"] = moved
                    prob = None
                    try:
                        twin = repo.TimeRecurrence(**kw)
                        if (a == twin) is not True or (twin == a) is not True:
                            prob = "is unequal to"
                        elif hash(a) != hash(twin):
                            prob = "hashes differently from"
                        else:
                            try:
                                text = str(a)
                            except OverflowError:
                                text = None   # (a year str() cannot spell)
                            if text is not None and (
                                    ctx.rparser.parse(text) == twin) \
                                    is not True:
                                prob = "does not read back from its text " \
                                    "(%r) as" % text
                    except ValueError:
                        twin = None
                    if prob:
                        ctx.violation("shift.fresh-twin", "r + d for %s, "
                                      "d=%r: %s %s the recurrence built at "
                                      "the shifted anchor %s" % (
                                          _rk(rec), case["shift"], _rk(a),
                                          prob, _rk(twin)))
                    elif twin is not None:
                        ctx.cls("shift/fresh-twin")
            if any(case["shift"].values()):
                ctx.nontrivial((dkey, "shift", repr(case["shift"])))
        elif op == "siblings":
            ctx.ev("siblings")
            for what, kw in sibling_variants(repo, rec):
                try:
                    sib = repo.TimeRecurrence(**kw)
                except ValueError:
                    continue
                if (sib == rec) is not False or (rec == sib) is not False \
                        or (rec != sib) is not True:
                    ctx.violation("sibling." + what, "recurrences differing "
                                  "only in %s compare equal: %s vs %s" % (
                                      what, _rk(rec), _rk(sib)))
                else:
                    ctx.cls("sibling/" + what)
                ctx.nontrivial((dkey, "sibling", what))
            # values whose hashes collide in CPython (hash(-1) == hash(-2),
            # integers 2**61 - 1 apart): still different recurrences
            mk = repo.TimePoint
            pairs = []
            for y1, y2 in ((-1, -2), (-2, -1)):
                a1 = mk(year=y1, month_of_year=3, day_of_month=15,
                        hour_of_day=6, minute_of_hour=0, second_of_minute=0,
                        time_zone_hour=0, time_zone_minute=0)
                a2 = mk(year=y2, month_of_year=3, day_of_month=15,
                        hour_of_day=6, minute_of_hour=0, second_of_minute=0,
                        time_zone_hour=0, time_zone_minute=0)
                d1 = repo.Duration(hours=1)
                pairs.append((repo.TimeRecurrence(repetitions=3,
                                                  start_point=a1,
                                                  duration=d1),
                              repo.TimeRecurrence(repetitions=3,
                                                  start_point=a2,
                                                  duration=d1)))
            anchor0 = rec._start_point if rec._start_point is not None \
                else rec._end_point
            pairs.append((
                repo.TimeRecurrence(start_point=anchor0,
                                    duration=repo.Duration(seconds=1)),
                repo.TimeRecurrence(start_point=anchor0,
                                    duration=repo.Duration(
                                        seconds=1 + 2 ** 61 - 1))))
            for a, b in pairs:
                if (a == b) is not False or (a != b) is not True or \
                        (b != a) is not True:
                    ctx.violation("sibling.hash-collision", "different "
                                  "recurrences with colliding hashes do not "
                                  "compare unequal: %s vs %s (==: %r, !=: "
                                  "%r)" % (_rk(a), _rk(b), a == b, a != b))
                    break
            else:
                ctx.cls("sibling/hash-collision")
            # intervals at the small end of the scale: binary fractions of a
            # microsecond are still different intervals, and not "no interval"
            fmt = rec._format_number
            if fmt in (3, 4) and rec._repetitions != 1 and \
                    rec._duration is not None:
                key = "start_point" if fmt == 3 else "end_point"
                anchor = rec._start_point if fmt == 3 else rec._end_point
                tiny = []
                for secs in (2.0 ** -21, 2.0 ** -22, 0):
                    try:
                        tiny.append(repo.TimeRecurrence(
                            repetitions=rec._repetitions,
                            duration=repo.Duration(seconds=secs),
                            **{key: anchor}))
                    except ValueError:
                        tiny = None
                        break
                if tiny:
                    t1, t2, t0 = tiny
                    if (t1 == t2) is not False or (t1 == t0) is not False \
                            or (t2 == t0) is not False:
                        ctx.violation(
                            "sibling.tiny-interval", "recurrences with "
                            "intervals of 2**-21 s, 2**-22 s and no interval "
                            "compare equal: %s, %s, %s" % (
                                _rk(t1), _rk(t2), _rk(t0)))
                    else:
                        ctx.cls("sibling/tiny-interval")
        elif op == "twins":
            ctx.ev("twins")
            rng = __import__("random").Random(case["seed"])
            for what, twin in twin_variants(repo, rng, mode, rec):
                prob = None
                if (twin == rec) is not True or (rec == twin) is not True:
                    prob = "compare unequal"
                elif hash(twin) != hash(rec):
                    prob = "hash differently"
                else:
                    exact = rec._duration is None or \
                        R.dur_is_exact(rec._duration)
                    if exact and _insts(mode, _series(twin)) != \
                            _insts(mode, _series(rec)):
                        prob = "iterate differently"
                if prob:
                    ctx.violation("twin." + what, "re-spelled twins %s: %s "
                                  "vs %s" % (prob, _rk(rec), _rk(twin)))
                else:
                    ctx.cls("twin/" + what)
                ctx.nontrivial((dkey, "twin", what))
            pair = fraction_twins(repo, rng, rec)
            if pair is not None:
                a, b = pair
                # (equality of float totals is the library's own verdict;
                # the demand is only: equal -> equal hashes, one set member)
                if (a == b) is True and (b == a) is True:
                    if hash(a) != hash(b) or len({a, b}) != 1:
                        ctx.violation(
                            "twin.fraction-units", "equal recurrences whose "
                            "interval spells its days as days / as hours "
                            "hash differently: %s vs %s" % (_rk(a), _rk(b)))
                    else:
                        ctx.cls("twin/fraction-units")
        elif op == "roundtrip":
            ctx.ev("roundtrip")
            try:
                s = str(rec)
                back = ctx.rparser.parse(s)
            except Exception as exc:
                ctx.violation("roundtrip.raised", "str/parse of %s raised "
                              "%r" % (_rk(rec), exc))
                return
            prob = None
            if (back == rec) is not True:
                prob = "parsed recurrence unequal: %s" % (_rk(back),)
            elif hash(back) != hash(rec):
                prob = "hash differs"
            elif _insts(mode, _series(back)) != _insts(mode, _series(rec)):
                prob = "points differ"
            else:
                # the parsed recurrence is a value like any other: its own
                # text reads back as the same recurrence again
                try:
                    s2 = str(back)
                    back2 = ctx.rparser.parse(s2)
                    if (back2 == rec) is not True or \
                            hash(back2) != hash(rec):
                        prob = "second generation differs: str of the " \
                            "parsed recurrence is %r, read back as %s" % (
                                s2, _rk(back2))
                except Exception as exc:
                    prob = "second generation raised %r" % (exc,)
            if prob:
                ctx.violation("roundtrip", "parse(str(r)) for %s (text %r): "
                              "%s" % (_rk(rec), s, prob))
            else:
                ctx.cls("roundtrip/fmt%s" % rec._format_number)
            ctx.nontrivial((dkey, "roundtrip"))
    finally:
        repo.set_mode("gregorian")


def cross_mode_roundtrip(ctx, repo, rng):
    """the same parser object and the same text under two calendar modes:
    parsing is a function of (text, active mode)"""
    n = rng.choice((2, 3, 4, 6))
    day = rng.choice((1, 2, 3))
    month = rng.choice((3, 1, 12))
    end = {"year": rng.choice((2000, 2001, 2004)), "month_of_year": month,
           "day_of_month": day, "hour_of_day": 0, "minute_of_hour": 0,
           "second_of_minute": 0}
    dur = rng.choice(({"days": 1}, {"days": 2}, {"hours": 36}, {"weeks": 1}))
    texts = {}
    for mode in rng.sample(R.MODES, 4):
        desc = {"mode": mode, "fmt": rng.choice((3, 4)), "reps": n,
                "dur": dur}
        desc["end" if desc["fmt"] == 4 else "start"] = end
        desc["fmt"] = 4
        desc.pop("start", None)
        desc["end"] = end
        repo.set_mode(mode)
        try:
            rec = recgen.build(repo, desc)
            s = str(rec)
            back = ctx.rparser.parse(s)
            ctx.ev("roundtrip.cross-mode")
            if (back == rec) is not True or _insts(mode, _series(back)) != \
                    _insts(mode, _series(rec)):
                ctx.case = {"op": "cross-mode", "desc": desc}
                ctx.violation("roundtrip.cross-mode", "parse(str(r)) under "
                              "mode %s after the same text was parsed under "
                              "%r: %s vs %s (text %r)" % (
                                  mode, sorted(texts), _rk(back), _rk(rec),
                                  s))
            else:
                ctx.cls("roundtrip/cross-mode")
            texts[mode] = s
        finally:
            repo.set_mode("gregorian")


def sibling_variants(repo, rec):
    """constructor kwargs differing from rec in exactly one component"""
    one = repo.Duration(seconds=1)
    fmt = rec._format_number
    base = {"repetitions": rec._repetitions}
    single = rec._repetitions == 1 or rec._duration is None
    if fmt == 1:
        base.update(start_point=rec._start_point, end_point=rec._second_point)
    elif fmt == 3:
        base.update(start_point=rec._start_point, duration=rec._duration)
    else:
        base.update(end_point=rec._end_point, duration=rec._duration)
    out = []
    if rec._repetitions is not None and not single:
        kw = dict(base)
        kw["repetitions"] = rec._repetitions + 1
        out.append(("repetitions", kw))
    if "start_point" in base and base["start_point"] is not None:
        kw = dict(base)
        kw["start_point"] = base["start_point"] - one
        if fmt == 1 and not single:
            kw["end_point"] = base["end_point"] - one
        out.append(("start", kw))
    if fmt == 4:
        kw = dict(base)
        kw["end_point"] = base["end_point"] + one
        out.append(("end", kw))
    if fmt in (3, 4) and not single and base["duration"] is not None:
        kw = dict(base)
        kw["duration"] = base["duration"] + one
        out.append(("interval", kw))
    if fmt == 1 and not single:
        kw = dict(base)
        kw["end_point"] = base["end_point"] + one
        out.append(("interval", kw))
    d = base.get("duration")
    if fmt in (3, 4) and not single and d is not None and \
            (d._years or d._months) and d._weeks is None:
        # the same rough length split differently between nominal and
        # exact units: a different interval (a month is not 30 days, a year
        # is not 365 days)
        y, m, dd = d._years, d._months, d._days
        if m > 0:
            m, dd = m - 1, dd + 30
        else:
            y, dd = y - 1, dd + 365
        kw = dict(base)
        kw["duration"] = repo.Duration(
            years=y, months=m, days=dd, hours=d._hours, minutes=d._minutes,
            seconds=d._seconds)
        out.append(("interval-regrouped", kw))
    return out


def twin_variants(repo, rng, mode, rec):
    fmt = rec._format_number

    def respell(p, what):
        inst = int(R.tp_instant(mode, p))
        if what == "zone":
            return repo.tp(gen.tp_from_instant(
                rng, mode, inst, rep=R.tp_rep(p), allow_2400=False))
        rep = rng.choice([r for r in gen.REPS if r != R.tp_rep(p)])
        return repo.tp(gen.tp_from_instant(
            rng, mode, inst, rep=rep, allow_2400=False,
            offset=(p._time_zone._hours, p._time_zone._minutes)))
    def eod(p):
        """the other spelling of a local midnight, same representation and
        offset: 24:00 of the day before <-> 00:00:00"""
        rep, date = R.tp_date(p)
        rd = R.date_to_rd(mode, rep, date)
        if p._hour_of_day == 24:
            kw = gen.date_kwargs(mode, rep, rd + 1)
            kw.update(hour_of_day=0, minute_of_hour=0, second_of_minute=0)
        else:
            kw = gen.date_kwargs(mode, rep, rd - 1)
            kw.update(hour_of_day=24)
        kw.update(gen.zone_kwargs((p._time_zone._hours,
                                   p._time_zone._minutes)))
        return repo.tp(kw)
    out = []
    exact = rec._duration is None or R.dur_is_exact(rec._duration)
    dur0 = rec._duration if rec._duration is not None else repo.Duration()
    anchor = rec._end_point if fmt == 4 else rec._start_point
    if exact and fmt in (3, 4) and anchor is not None and \
            R.tp_sod(anchor) in (0, 86400) and R.tp_is_integral(anchor):
        kw = {"repetitions": rec._repetitions, "duration": dur0}
        kw["end_point" if fmt == 4 else "start_point"] = eod(anchor)
        try:
            out.append(("end-of-day", repo.TimeRecurrence(**kw)))
        except ValueError:
            pass
    for what in ("zone", "representation"):
        if not exact:
            continue   # a nominal far anchor depends on the spelling
        kw = {"repetitions": rec._repetitions}
        if fmt == 1:
            kw.update(start_point=respell(rec._start_point, what),
                      end_point=respell(rec._second_point, what))
        elif fmt == 3:
            kw.update(start_point=respell(rec._start_point, what),
                      duration=dur0)
        else:
            kw.update(end_point=respell(rec._end_point, what),
                      duration=dur0)
        try:
            out.append((what, repo.TimeRecurrence(**kw)))
        except ValueError:
            pass
    d = rec._duration
    if fmt in (3, 4) and d is not None and R.dur_is_integral(d):
        y, m = R.dur_nominal(d)
        secs = int(R.dur_len(d))
        alt = repo.Duration(years=y, months=m, minutes=secs // 60,
                            seconds=secs % 60)
        kw = {"repetitions": rec._repetitions, "duration": alt}
        if fmt == 3:
            kw["start_point"] = rec._start_point
        else:
            kw["end_point"] = rec._end_point
        out.append(("units", repo.TimeRecurrence(**kw)))
    return out


def fraction_twins(repo, rng, rec):
    """two recurrences with one interval that has a decimal (not binary)
    fraction of a second, the whole days spelled as days in one and as hours
    in the other -> (a, b) or None"""
    d = rec._duration
    fmt = rec._format_number
    if fmt not in (3, 4) or d is None or not R.dur_is_integral(d) or \
            not R.dur_is_exact(d) or d._weeks is not None or \
            R.dur_len(d) <= 0:
        return None
    frac = rng.choice((0.1, 0.3, 0.7, 0.9, 0.01))
    days, hours, minutes, secs = d._days, d._hours, d._minutes, d._seconds
    if days <= 0:
        days = d._days + 1      # (at least one whole day to re-spell)
    a = repo.Duration(days=days, hours=hours, minutes=minutes,
                      seconds=secs + frac)
    b = repo.Duration(hours=hours + 24 * days, minutes=minutes,
                      seconds=secs + frac)
    key = "start_point" if fmt == 3 else "end_point"
    anchor = rec._start_point if fmt == 3 else rec._end_point
    try:
        return (repo.TimeRecurrence(repetitions=rec._repetitions,
                                    duration=a, **{key: anchor}),
                repo.TimeRecurrence(repetitions=rec._repetitions,
                                    duration=b, **{key: anchor}))
    except ValueError:
        return None


def workload(ctx, repo):
    rng = ctx.rng
    n = 3500 if ctx.tier == "quick" else 10000
    # single-point recurrences in each notation, shifted both ways
    for mode in R.MODES:
        for fmt in (1, 3, 4):
            for reps in (1, None, 3):
                desc = recgen.make(rng, mode, fmt=fmt, reps=reps,
                                   interval="exact")
                if reps is None:
                    if fmt == 1:
                        desc["delta"] = {"days": 0}
                    else:
                        desc["dur"] = {"days": 0}
                for shift in ({"hours": 1}, {"days": -3, "seconds": 1}):
                    case = {"op": "shift", "desc": desc, "shift": shift}
                    ctx.case = case
                    run_case(ctx, repo, case)
    # anchors written with decimal minutes / decimal hours (binary fractions:
    # exact in floats) shifted by whole seconds, minutes and hours
    if ctx.worker == 0:
        for fmt in (3, 4):
            for tkw in ({"hour_of_day": 6, "minute_of_hour": 30,
                         "minute_of_hour_decimal": 0.5},
                        {"hour_of_day": 23, "minute_of_hour": 59,
                         "minute_of_hour_decimal": 0.25},
                        {"hour_of_day": 6, "hour_of_day_decimal": 0.125},
                        {"hour_of_day": 6, "minute_of_hour": 30,
                         "second_of_minute": 15,
                         "second_of_minute_decimal": 0.5}):
                for shift in ({"seconds": 45}, {"seconds": -45},
                              {"minutes": 1, "seconds": 30},
                              {"hours": 1, "seconds": 1}, {"minutes": 7},
                              {"hours": -2}, {"days": 1, "seconds": 15}):
                    a = {"year": 2021, "month_of_year": 12,
                         "day_of_month": 31}
                    a.update(tkw)
                    a.update(gen.zone_kwargs((0, 0)))
                    desc = {"mode": "gregorian", "fmt": fmt, "reps": 3,
                            "dur": {"hours": 6}}
                    desc["start" if fmt == 3 else "end"] = a
                    case = {"op": "shift", "desc": desc, "shift": shift}
                    ctx.case = case
                    ctx.ev("cases.decimal-anchor-shifts")
                    run_case(ctx, repo, case)
    for k in range(n):
        mode = R.MODES[k % 4] if k % 2 else "gregorian"
        desc = recgen.make(rng, mode, reps=rng.choice(
            (None, 1, 2, 3, 5, 9, 20)))
        # anchors must be text-producible for the round trip
        v = k % 5
        if v in (0, 1):
            case = {"op": "shift", "desc": desc,
                    "shift": gen.rand_exact_dur(rng, integral=True)}
            if k % 25 == 5:
                # a fraction of a minute / hour that is a whole number of
                # seconds
                case["shift"] = rng.choice(({"minutes": 0.5},
                                            {"minutes": 2.25},
                                            {"hours": 0.125},
                                            {"minutes": -0.5},
                                            {"hours": 1, "minutes": 0.75}))
            if k % 25 == 0:
                # shifts longer than a 400-year cycle
                case["shift"] = rng.choice((
                    {"days": 150000}, {"weeks": -21000},
                    {"hours": 7200000}, {"days": -146097},
                    {"days": 146098, "seconds": 1}))
        elif v == 2:
            case = {"op": "siblings", "desc": desc}
        elif v == 3:
            if k % 3 == 0 and not recgen.is_nominal(desc):
                # anchor at local midnight: it has an end-of-day (24:00
                # of the previous day) twin in the same offset
                a = desc["end"] if desc["fmt"] == 4 else desc["start"]
                a.update(hour_of_day=0, minute_of_hour=0, second_of_minute=0)
            case = {"op": "twins", "desc": desc,
                    "seed": rng.randrange(10**9)}
        else:
            dkw = desc.get("dur") or desc.get("delta") or {}
            vals = [x for x in dkw.values() if x]
            if vals and not (all(x > 0 for x in vals) or
                             all(x < 0 for x in vals)):
                # mixed-sign intervals have no text form
                for key in ("dur", "delta"):
                    if key in desc:
                        desc[key] = {kk: abs(x) for kk, x in dkw.items()}
            case = {"op": "roundtrip", "desc": desc}
            if k % 15 == 4 and not recgen.is_nominal(desc) and \
                    desc["fmt"] in (3, 4):
                # an anchor spelled 24:00 on the last day of a month or
                # year, in UTC and elsewhere
                a = desc["end"] if desc["fmt"] == 4 else desc["start"]
                yy = a["year"] if 1 <= a["year"] <= 9998 else 2020
                rd = R.days_before_year(mode, yy + 1) - rng.choice(
                    (1, 1, 1 + R.month_len(mode, yy, 12)))
                new_a = gen.date_kwargs(mode, rng.choice(gen.REPS), rd)
                new_a.update({"hour_of_day": 24})
                new_a.update(gen.zone_kwargs(rng.choice(((0, 0), (0, 0),
                                                         (1, 0), (-5, -30)))))
                desc["end" if desc["fmt"] == 4 else "start"] = new_a
                ctx.cls("roundtrip/anchor-24:00-period-end")
            elif k % 15 == 9 and desc["fmt"] in (3, 4):
                # an interval whose hours / minutes are below 1e-4 (str()
                # writes such numbers with an exponent)
                desc["dur"] = rng.choice(({"minutes": 0.00005},
                                          {"hours": 0.00002},
                                          {"hours": 1, "minutes": 0.00001},
                                          {"seconds": 0.00003}))
                if (k // 15) % 2:
                    # ... down to the smallest numbers a text can spell
                    # (the interval only has to survive its own str())
                    pool = ({"seconds": 1e-26}, {"minutes": 3e-30},
                            {"hours": 2.0 ** -100}, {"seconds": 5e-41},
                            {"seconds": 1e-300}, {"hours": 1,
                                                  "seconds": 7e-35},
                            {"minutes": 1.5e-25}, {"seconds": 5e-324})
                    desc["dur"] = pool[(k // 30) % len(pool)]
                    ctx.cls("roundtrip/minute-decimal-interval")
                ctx.cls("roundtrip/tiny-decimal-interval")
        ctx.case = case
        if k % 173 == 0:
            ctx.sample(case)
        run_case(ctx, repo, case)
        if k % 25 == 0:
            cross_mode_roundtrip(ctx, repo, rng)
