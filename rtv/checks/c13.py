"""C13 - recurrence queries agree with iteration.

Monitors: postconditions on get_is_valid, __getitem__, get_next, get_prev
and get_first_after.  Ground truth is the series the same object iterates
(real iterator, enumerated inside the oracle), with the closed-form
reference as a second opinion for exact intervals beyond the enumerated
prefix."""
import itertools
from fractions import Fraction as F

from .. import gen
from .. import recgen
from .. import refmodel as R

RULE = ("cases = (recurrence description as in C12, probe points): members "
        "(first and last ones) re-expressed in other zones/representations, "
        "+-1 s around members, far before, far after, and the last member "
        "itself; each probe is put to get_is_valid, get_next, get_prev, "
        "get_first_after (recurrences with a start point) and indices 0..n "
        "to __getitem__; non-trivial = a probe that lies on or between "
        "members; distinct by (description, probe fields)")
RUN_REPO_SUITE = True   # thorough tier: repo tests under these monitors
DECIDING = ["is_valid.post", "getitem.post", "neighbour.post",
            "first_after.post"]
MIN_EVALS = {"is_valid.post": 4000, "getitem.post": 1500,
             "neighbour.post": 4000, "first_after.post": 2500}
PREFIX = 80


def _members(ctx, repo, rec):
    """(list of points, complete?) - the object's own iteration"""
    mode = R.canon(repo.CALENDAR.mode)
    key = (id(rec), mode)
    hit = ctx.member_cache.get(key)
    if hit is not None and hit[0] is rec:
        return hit[1], hit[2]
    pts = list(itertools.islice(iter(rec), PREFIX + 1))
    complete = len(pts) <= PREFIX
    pts = pts[:PREFIX]
    ctx.member_cache = {key: (rec, pts, complete)}
    ctx.member_insts = (rec, mode, [R.tp_instant(mode, m) for m in pts])
    return pts, complete


def _member_insts(ctx, repo, rec, pts):
    hit = getattr(ctx, "member_insts", None)
    mode = R.canon(repo.CALENDAR.mode)
    if hit is not None and hit[0] is rec and hit[1] == mode and \
            len(hit[2]) == len(pts):
        return hit[2]
    return [R.tp_instant(mode, m) for m in pts]


def _usable(rec, *points):
    if rec._min_point is not None or rec._max_point is not None:
        return False
    for x in (rec._start_point, rec._end_point):
        # anchors: whole seconds, or a binary fraction of a second on an
        # hh:mm:ss point (exact in floats)
        if x is not None and (x._truncated or not (
                R.tp_is_integral(x) or (R.tp_is_dyadic(x, 16) and
                                        x._second_of_minute is not None))):
            return False
    for x in points:
        # probes may use a decimal form whose arithmetic is exact (R1)
        if x is not None and (x._truncated or not R.tp_is_dyadic(x)):
            return False
        if x is not None and x._minute_of_hour is None and \
                R.tp_offset_minutes(x) % 60:
            return False
    d = rec._duration
    if d is not None and not R.dur_is_integral(d):
        # binary fractions with small denominators stay exact in floats
        for v in (d._days, d._hours, d._minutes, d._seconds, d._weeks):
            if v is not None:
                den = F(v).denominator
                if den > 4096 or den & (den - 1):
                    return False
    return True


def install(ctx, repo, probes):
    TR = repo.TimeRecurrence
    ctx.member_cache = {}

    def mode_now():
        return R.canon(repo.CALENDAR.mode)

    def inst(p):
        return R.tp_instant(mode_now(), p)

    def exact_iv(rec):
        d = rec._duration
        return d is not None and R.dur_is_exact(d) and R.dur_len(d) > 0

    def post_valid(snap, args, kwargs, res, exc):
        rec, p = args[0], args[1]
        if p is None or not isinstance(p, repo.TimePoint) or \
                not _usable(rec, p):
            return
        mode = mode_now()
        pts, complete = _members(ctx, repo, rec)
        if pts and p._minute_of_hour is None and \
                (R.tp_offset_minutes(p) - R.tp_offset_minutes(pts[0])) % 60:
            return      # decimal-hour probe re-zoned by minutes: tolerance
        ip = inst(p)
        insts = _member_insts(ctx, repo, rec, pts)
        truth = None
        if ip in insts:
            truth = True
        elif complete:
            truth = False
        elif insts:
            reverse = rec._start_point is None
            beyond = ip < insts[-1] if reverse else ip > insts[-1]
            if not beyond:
                truth = False
            elif exact_iv(rec):
                step = R.dur_len(rec._duration)
                k = (insts[0] - ip) / step if reverse else \
                    (ip - insts[0]) / step
                truth = k.denominator == 1 and k >= 0
        if truth is None:
            return
        ctx.ev("is_valid.post")
        if exc is not None or res is not truth:
            ctx.violation("is_valid", "get_is_valid(%r) = %r (exc %r) but "
                          "iteration %s a point at that instant; recurrence "
                          "%s" % (R.tp_key(p), res, exc,
                                  "yields" if truth else "does not yield",
                                  _rk(rec)), probe=R.tp_key(p))
        else:
            ctx.cls("is_valid/%s" % truth)
    probes.wrap(TR, "get_is_valid", post_valid)

    def post_getitem(snap, args, kwargs, res, exc):
        rec, i = args[0], args[1]
        if not isinstance(i, int) or isinstance(i, bool) or i < 0 or \
                not _usable(rec):
            return
        pts, complete = _members(ctx, repo, rec)
        if i >= len(pts) and not complete:
            return
        ctx.ev("getitem.post")
        if i < len(pts):
            ok = exc is None and R.tp_key(res) == R.tp_key(pts[i])
        else:
            ok = isinstance(exc, IndexError)
        if not ok:
            ctx.violation("getitem", "r[%d] = %r (exc %r), iteration gives "
                          "%r; recurrence %s" % (
                              i, R.tp_key(res) if res is not None else None,
                              exc, R.tp_key(pts[i]) if i < len(pts)
                              else "IndexError", _rk(rec)), index=i)
        else:
            ctx.cls("getitem/%s" % ("in" if i < len(pts) else "out"))
    probes.wrap(TR, "__getitem__", post_getitem)

    def make_neighbour(which):
        def post(snap, args, kwargs, res, exc):
            rec, p = args[0], args[1]
            if p is None or not isinstance(p, repo.TimePoint) or \
                    not _usable(rec, p):
                return
            pts, complete = _members(ctx, repo, rec)
            insts = _member_insts(ctx, repo, rec, pts)
            ip = inst(p)
            if ip not in insts:
                return          # the property speaks about members only
            j = insts.index(ip)
            reverse = rec._start_point is None
            exact = exact_iv(rec) or rec._repetitions == 1 or \
                rec._duration is None
            # neighbour in time order -> index in iteration order
            along = (which == "next") != reverse   # moves along iteration
            if not exact and not along:
                return          # nominal: only the direction of iteration
            if not exact and R.tp_key(p) != R.tp_key(pts[j]):
                # month/year steps depend on the spelling of the operand;
                # only the member as the series spells it is demanded
                return
            k = j + 1 if along else j - 1
            if k < 0:
                want = None
            elif k < len(pts):
                want = pts[k]
            elif complete:
                want = None
            else:
                return
            ctx.ev("neighbour.post")
            if want is None:
                ok = exc is None and res is None
            elif not R.tp_is_integral(p) or R.tp_form(p) != "hms":
                # a decimal-form probe: adding the interval is float
                # arithmetic (tolerance regime); exactly at a bound of the
                # series the noise may fall on either side
                at_bound = k == 0 or (complete and k == len(pts) - 1)
                ok = exc is None and (
                    (res is not None and
                     abs(inst(res) - inst(want)) <= F(1, 10**6)) or
                    (res is None and at_bound))
            else:
                ok = exc is None and res is not None and \
                    inst(res) == inst(want) and R.tp_valid(mode_now(), res)
            if not ok:
                ctx.violation("neighbour." + which, "get_%s(%r) = %r (exc "
                              "%r), adjacent member is %r; recurrence %s" % (
                                  which, R.tp_key(p),
                                  None if res is None else R.tp_key(res),
                                  exc,
                                  None if want is None else R.tp_key(want),
                                  _rk(rec)), probe=R.tp_key(p))
            else:
                ctx.cls("%s/%s" % (which, "none" if want is None
                                   else "member"))
        return post
    probes.wrap(TR, "get_next", make_neighbour("next"))
    probes.wrap(TR, "get_prev", make_neighbour("prev"))

    def post_first_after(snap, args, kwargs, res, exc):
        rec, p = args[0], args[1]
        if p is None or not isinstance(p, repo.TimePoint) or \
                rec._start_point is None or not _usable(rec, p):
            return
        pts, complete = _members(ctx, repo, rec)
        if pts and p._minute_of_hour is None and \
                (R.tp_offset_minutes(p) - R.tp_offset_minutes(pts[0])) % 60:
            return      # decimal-hour probe re-zoned by minutes: tolerance
        insts = _member_insts(ctx, repo, rec, pts)
        ip = inst(p)
        if ip.denominator != 1:
            # the property quantifies get_first_after over whole-second
            # probes only (the library floors the sub-second part of the
            # probe's distance: R/2020-01-01T00Z/PT1H after 00:30:00,25Z
            # gives 01:00:00,25Z; outside C13, see DESIGN.md section 7)
            ctx.ev("first_after.sub-second-probe-out-of-scope")
            return
        later = [m for m, im in zip(pts, insts) if im > ip]
        far_want = None
        if later:
            want = later[0]
        elif complete:
            want = None
        elif exact_iv(rec) and insts:
            # beyond the listed prefix of an unbounded (or long) exact
            # series: the next member follows by arithmetic on instants
            step = R.dur_len(rec._duration)
            k = (ip - insts[0]) // step + 1
            n = rec._repetitions
            if n is not None and k >= n:
                far_want = "none"
            else:
                far_want = insts[0] + k * step
            want = None
        else:
            return
        if far_want is not None:
            ctx.ev("first_after.post")
            if far_want == "none":
                ok = exc is None and res is None
            else:
                ok = exc is None and res is not None and \
                    abs(inst(res) - far_want) <= (
                        0 if R.tp_is_integral(p) and
                        R.tp_form(p) == "hms" else F(1, 10**6))
            if not ok:
                ctx.violation("first_after", "get_first_after(%r) = %r (exc "
                              "%r) far along an exact series; the next "
                              "member is %s s after the start; recurrence "
                              "%s" % (R.tp_key(p), None if res is None
                                      else R.tp_key(res), exc,
                                      far_want if far_want == "none" else
                                      far_want - insts[0], _rk(rec)),
                              probe=R.tp_key(p))
            else:
                ctx.cls("first_after/far-along")
            return
        ctx.ev("first_after.post")
        if want is None:
            ok = exc is None and res is None
        elif not R.tp_is_integral(p) or R.tp_form(p) != "hms":
            at_bound = complete and want is pts[-1]
            ok = exc is None and (
                (res is not None and
                 abs(inst(res) - inst(want)) <= F(1, 10**6)) or
                (res is None and at_bound))
        else:
            ok = exc is None and res is not None and \
                inst(res) == inst(want)
        if not ok:
            ctx.violation("first_after", "get_first_after(%r) = %r (exc %r), "
                          "earliest later member is %r; recurrence %s" % (
                              R.tp_key(p),
                              None if res is None else R.tp_key(res), exc,
                              None if want is None else R.tp_key(want),
                              _rk(rec)), probe=R.tp_key(p),
                          probe_is_last=bool(complete and insts and
                                             ip == insts[-1]))
        else:
            if want is None:
                ctx.cls("first_after/none")
                if insts and ip == insts[-1]:
                    ctx.cls("first_after/last-member")
            elif ip < insts[0]:
                ctx.cls("first_after/before-series")
            elif ip in insts:
                ctx.cls("first_after/on-member")
            else:
                ctx.cls("first_after/between")
    probes.wrap(TR, "get_first_after", post_first_after)
    ctx.target("valid/deep-member")
    ctx.target("same-object-other-mode", "binary-fraction-interval",
               "probe/far-along", "first_after/far-along",
               "fractional-second-anchor", "probe/formatting-attributes",
               "first_after/far-nominal")
    ctx.target("probe/sub-second-near-miss", "is_valid/True", "is_valid/False", "getitem/in", "getitem/out",
               "next/member", "next/none", "prev/member", "prev/none",
               "first_after/none", "first_after/last-member",
               "first_after/before-series", "first_after/on-member",
               "first_after/between")


def _rk(rec):
    def k(x):
        return None if x is None else R.tp_key(x)
    return (rec._format_number, rec._repetitions, k(rec._start_point),
            k(rec._end_point),
            None if rec._duration is None else R.dur_key(rec._duration))


def _kwargs_of(p):
    """constructor kwargs re-creating a whole-second point as spelled"""
    rep, date = R.tp_date(p)
    kw = {"year": date[0], "hour_of_day": int(p._hour_of_day),
          "minute_of_hour": int(p._minute_of_hour),
          "second_of_minute": int(p._second_of_minute),
          "time_zone_hour": p._time_zone._hours,
          "time_zone_minute": p._time_zone._minutes}
    if rep == "cal":
        kw.update(month_of_year=date[1], day_of_month=date[2])
    elif rep == "ord":
        kw.update(day_of_year=date[1])
    else:
        kw.update(week_of_year=date[1], day_of_week=date[2])
    if p._num_expanded_year_digits:
        kw["num_expanded_year_digits"] = p._num_expanded_year_digits
    return kw


def run_case(ctx, repo, case):
    desc = case["desc"]
    mode = desc["mode"]
    repo.set_mode(mode, case)
    try:
        try:
            rec = recgen.build(repo, desc)
        except ValueError:
            return
        if case.get("op") == "deep-member":
            # a member far along an unbounded series of seconds is a member
            # like any other (the monitor on get_is_valid decides)
            depth = case["depth"]
            a = rec._start_point
            probe = repo.tp(gen.tp_from_instant(
                __import__("random").Random(depth), mode,
                int(R.tp_instant(mode, a)) + depth, rep="cal", offset=(0, 0),
                allow_2400=False))
            ctx.ev("valid.deep-member")
            got = rec.get_is_valid(probe)
            if got is not True:
                ctx.violation("valid.deep-member", "member number %d of %r "
                              "is reported as no member" % (depth + 1, desc))
            else:
                ctx.cls("valid/deep-member")
            return
        rng = __import__("random").Random(case["probe_seed"])
        if any(F(v).denominator != 1 for v in
               (desc.get("dur") or {}).values()):
            ctx.cls("binary-fraction-interval")
        ctx.in_oracle += 1
        try:
            pts = list(itertools.islice(iter(rec), 14))
            tail = []
            if desc["reps"] and desc["reps"] > 14:
                tail = list(iter(rec))[-3:]
        finally:
            ctx.in_oracle -= 1
        insts = [int(R.tp_instant(mode, p)) for p in pts + tail]
        probes = []
        for m in (pts + tail)[:4] + (pts + tail)[-3:]:
            probes.append(_kwargs_of(m))
        for i in insts[:4] + insts[-3:]:
            probes.append(gen.tp_from_instant(rng, mode, i, allow_2400=False))
            probes.append(gen.tp_from_instant(rng, mode, i + rng.choice(
                (1, -1)), allow_2400=False))
        if insts:
            lo, hi = min(insts), max(insts)
            # "far" is measured in steps: the library scans member by member
            step = abs(insts[1] - insts[0]) if len(insts) > 1 else 86400
            probes.append(gen.tp_from_instant(rng, mode, lo - step * 40 - 7,
                                              allow_2400=False))
            probes.append(gen.tp_from_instant(rng, mode, hi + step * 40 + 7,
                                              allow_2400=False))
            probes.append(gen.tp_from_instant(rng, mode, hi,
                                              allow_2400=False))
            if desc["reps"] is None and "dur" in desc and \
                    not recgen.is_nominal(desc) and desc["fmt"] == 3 and \
                    step * 400 < 86400 * 366 * 40:
                # far along an unbounded forward series
                for mult in (150, 400):
                    probes.append(gen.tp_from_instant(
                        rng, mode, lo + step * mult + 7, allow_2400=False))
                    ctx.cls("probe/far-along")
            if len(insts) > 1:
                probes.append(gen.tp_from_instant(
                    rng, mode, (insts[0] + insts[1]) // 2, allow_2400=False))
        # members re-spelled in a decimal form (quarter hours / half minutes)
        for i in insts[:3] + insts[-2:]:
            if i % 900 == 0:
                kw = gen.tp_from_instant(rng, mode, i, allow_2400=False,
                                         offset=(rng.choice((0, 5, -3)), 0))
                h, m = kw.pop("hour_of_day"), kw.pop("minute_of_hour")
                kw.pop("second_of_minute")
                kw.update(hour_of_day=h, hour_of_day_decimal=m / 60.0)
                probes.append(kw)
            if i % 15 == 0:
                kw = gen.tp_from_instant(rng, mode, i, allow_2400=False)
                s_ = kw.pop("second_of_minute")
                kw["minute_of_hour_decimal"] = s_ / 60.0
                if s_ % 15 == 0:
                    probes.append(kw)
        # members carrying formatting attributes (as a parser with
        # dump_as_parsed / dump_format / expanded year digits leaves them)
        for m in (pts + tail)[:3] + (pts + tail)[-2:]:
            kw = _kwargs_of(m)
            kw["dump_format"] = rng.choice(("CCYY-MM-DDThh:mm:ssZ",
                                            "CCYYDDDThhmm+hhmm"))
            if rng.random() < 0.5:
                kw["num_expanded_year_digits"] = 2
            probes.append(kw)
            ctx.cls("probe/formatting-attributes")
        # near misses: a fraction of a second beside a member (the decimal
        # second is a multiple of 1/4, so the arithmetic stays exact)
        for i in insts[:3] + insts[-2:]:
            for base, frac in ((i, 0.25), (i - 1, 0.5), (i, 0.5),
                               (i - 1, 0.75)):
                kw = gen.tp_from_instant(rng, mode, base, allow_2400=False)
                kw["second_of_minute_decimal"] = frac
                probes.append(kw)
                ctx.cls("probe/sub-second-near-miss")
        for kw in probes:
            p = repo.tp(kw)
            try:
                rec.get_is_valid(p)
                rec.get_next(p)
                rec.get_prev(p)
                if rec.start_point is not None:
                    rec.get_first_after(p)
            except Exception as exc:  # reported by the monitors
                ctx.ev("query.raised")
            ctx.nontrivial((repr(sorted(desc.items(), key=str)),
                            repr(sorted(kw.items()))))
        n = desc["reps"] or 6
        for i in list(range(min(n, 8) + 2)) + [n - 1, n, n + 3]:
            if i < 0:
                continue
            try:
                rec[i]
            except IndexError:
                pass
        for fkw in case.get("far_probes", ()):
            # centuries along a month/year series: the answer is the first
            # iterated point later than the probe (iteration is the series)
            ctx.ev("first_after.far-nominal")
            fp = repo.tp(fkw)
            ifp = R.tp_instant(mode, fp)
            ctx.in_oracle += 1
            try:
                want = None
                for m in rec:
                    if R.tp_instant(mode, m) > ifp:
                        want = m
                        break
            finally:
                ctx.in_oracle -= 1
            try:
                got = rec.get_first_after(fp)
            except Exception as exc:
                got = exc
            if isinstance(got, Exception) or (got is None) != (want is None) \
                    or (got is not None and R.tp_instant(mode, got) !=
                        R.tp_instant(mode, want)):
                ctx.violation("first_after", "get_first_after(%r) = %r far "
                              "along %r; iteration gives %r" % (
                                  R.tp_key(fp),
                                  got if isinstance(got, Exception) or
                                  got is None else R.tp_key(got), desc,
                                  None if want is None else R.tp_key(want)))
            else:
                ctx.cls("first_after/far-nominal")
        other = case.get("then_mode")
        if other and other != mode:
            # the same object queried again under another calendar mode (its
            # anchors must be dates of both calendars); the last look before
            # the switch is at the head of the series, the first look after
            # it further along
            for i in (0, 1, 2):
                try:
                    rec[i]
                except IndexError:
                    pass
            repo.set_mode(other)
            ok = all(x is None or R.tp_valid(other, x) for x in (
                rec._start_point, rec._end_point))
            if ok:
                ctx.cls("same-object-other-mode")
                for i in [3, 4, 5, 6, 7] + list(range(min(n, 8) + 2)) + \
                        [n - 1, n]:
                    if i < 0:
                        continue
                    try:
                        rec[i]
                    except IndexError:
                        pass
                ctx.in_oracle += 1
                try:
                    now = list(itertools.islice(iter(rec), 6))
                finally:
                    ctx.in_oracle -= 1
                for m in now:
                    rec.get_is_valid(m)
                    rec.get_next(m)
    finally:
        repo.set_mode("gregorian")


def workload(ctx, repo):
    rng = ctx.rng
    # deterministic: anchors where month/year steps clamp
    k = 0
    for mode in R.MODES:
        descs = recgen.clamp_descs(mode)
        stride = 24 if ctx.tier == "quick" else 3
        for desc in descs:
            k += 1
            must = (mode == "gregorian" and (
                (desc["dur"] == {"years": 1} and desc["fmt"] == 3) or
                # ... and backward month steps from clamp days
                (desc["fmt"] == 4 and desc["reps"] is None and
                 "months" in desc["dur"] and "day_of_month" in desc["end"])))
            if must:
                if not ctx.mine(k):
                    continue
            elif (k + ctx.seed) % stride or not ctx.mine(k // stride):
                continue
            case = {"op": "queries", "desc": desc, "probe_seed": k}
            ctx.case = case
            run_case(ctx, repo, case)
    if ctx.worker == 0:
        for mode in R.MODES:
            for day, dkw in ((31, {"months": 1}), (30, {"months": 3}),
                             (29, {"years": 1}), (31, {"months": 5})):
                dd = min(day, R.month_len(mode, 2000, 1))
                start = gen.date_kwargs(mode, "cal", R.ymd_to_rd(
                    mode, 2000, 1, dd))
                start.update({"hour_of_day": 0, "minute_of_hour": 0,
                              "second_of_minute": 0})
                start.update(gen.zone_kwargs((0, 0)))
                far = []
                for yy, mm, d2 in ((2401, 1, 15), (2401, 2, 20),
                                   (2801, 1, 29), (2400, 12, 31)):
                    fkw = gen.date_kwargs(mode, "cal", R.ymd_to_rd(
                        mode, yy, mm, min(d2, R.month_len(mode, yy, mm))))
                    fkw.update({"hour_of_day": 0, "minute_of_hour": 0,
                                "second_of_minute": 0})
                    fkw.update(gen.zone_kwargs((0, 0)))
                    far.append(fkw)
                case = {"op": "queries", "probe_seed": day,
                        "far_probes": far,
                        "desc": {"mode": mode, "fmt": 3, "reps": None,
                                 "start": start, "dur": dkw}}
                ctx.case = case
                run_case(ctx, repo, case)
        for mode in R.MODES:
            for y, dkw in ((-1, {"weeks": 1}), (-2, {"days": 4}),
                           (0, {"hours": 100}), (-1, {"hours": 5})):
                start = gen.date_kwargs(mode, "cal", R.ymd_to_rd(
                    mode, y, 12, 25))
                start.update({"hour_of_day": 0, "minute_of_hour": 0,
                              "second_of_minute": 0})
                start.update(gen.zone_kwargs((0, 0)))
                case = {"op": "queries", "probe_seed": 7 + y,
                        "desc": {"mode": mode, "fmt": 3, "reps": None,
                                 "start": start, "dur": dkw}}
                ctx.case = case
                run_case(ctx, repo, case)
    # single steps from January that land exactly on (or a day beside) the
    # first of March, in leap and common years
    kk = 0
    for y in (2021, 2023, 2020, 1900):
        for d0 in (1, 10, 29, 31):
            n0 = R.ymd_to_rd("gregorian", y, 3, 1) - \
                R.ymd_to_rd("gregorian", y, 1, d0)
            for dkw in ({"days": n0}, {"hours": 24 * n0}, {"days": n0 - 1},
                        {"days": n0 + 1}, {"weeks": 4, "days": n0 - 28}):
                for rep in gen.REPS:
                    kk += 1
                    if not ctx.mine(kk):
                        continue
                    a = gen.date_kwargs("gregorian", rep, R.ymd_to_rd(
                        "gregorian", y, 1, d0))
                    a.update({"hour_of_day": 12, "minute_of_hour": 0,
                              "second_of_minute": 0})
                    a.update(gen.zone_kwargs((0, 0)))
                    case = {"op": "queries", "probe_seed": kk,
                            "desc": {"mode": "gregorian", "fmt": 3,
                                     "reps": 3, "start": a, "dur": dkw}}
                    ctx.case = case
                    ctx.ev("cases.january-to-march")
                    run_case(ctx, repo, case)
    # one member far along a series of seconds (quick: number 100 004,
    # thorough: number 500 010)
    if ctx.worker == 0:
        a = gen.tp_from_instant(rng, "gregorian", 730000 * 86400 + 5,
                                rep="cal", offset=(0, 0), allow_2400=False)
        case = {"op": "deep-member", "probe_seed": 0,
                "depth": 100003 if ctx.tier == "quick" else 500009,
                "desc": {"mode": "gregorian", "fmt": 3, "reps": None,
                         "start": a, "dur": {"seconds": 1}}}
        ctx.case = case
        run_case(ctx, repo, case)
    # intervals about a year long in exact units, from anchors at the ends
    # of leap and common years, in every representation: single steps that
    # land exactly on day 366 / 1 January
    kk = 0
    for (y, doy) in ((2019, 365), (2020, 100), (2019, 1), (2020, 1),
                     (2020, 366), (2021, 1), (2019, 364), (2023, 365)):
        for dkw in ({"days": 366}, {"days": 365}, {"days": 632},
                    {"days": 730}, {"days": 731}, {"weeks": 52},
                    {"weeks": 53}, {"hours": 8784}, {"days": 1096}):
            for rep in gen.REPS:
                for fmt in (3, 4):
                    kk += 1
                    if not ctx.mine(kk):
                        continue
                    a = gen.date_kwargs("gregorian", rep, R.days_before_year(
                        "gregorian", y) + doy - 1)
                    a.update({"hour_of_day": 0, "minute_of_hour": 0,
                              "second_of_minute": 0})
                    a.update(gen.zone_kwargs((0, 0)))
                    desc = {"mode": "gregorian", "fmt": fmt, "reps": 4,
                            "dur": dkw}
                    desc["start" if fmt == 3 else "end"] = a
                    case = {"op": "queries", "desc": desc, "probe_seed": kk}
                    ctx.case = case
                    ctx.ev("cases.year-long-exact")
                    run_case(ctx, repo, case)
    n = 300 if ctx.tier == "quick" else 1200
    for k in range(n):
        mode = R.MODES[k % 4] if k % 2 else "gregorian"
        desc = recgen.make(rng, mode,
                           reps=rng.choice((None, None, 1, 2, 3, 3, 5, 5, 9, 9, 9, 20) + ((50,) if k % 6 == 0 else ())))
        if k % 10 == 7:
            # an exact interval whose sub-second part is a binary fraction,
            # spelled in any unit (the members fall on ,5 / ,25 seconds)
            desc = recgen.make(rng, mode, fmt=rng.choice((3, 4)),
                               reps=rng.choice((None, 3, 5, 9)),
                               interval=rng.choice(recgen.BINARY_INTERVALS))
        elif k % 10 == 3:
            # whole-second intervals from an anchor on a fraction of a
            # second (every member is then off the whole seconds)
            desc = recgen.make(rng, mode, fmt=rng.choice((3, 4)),
                               reps=rng.choice((None, 4, 9)),
                               interval="exact")
            a = desc["end"] if desc["fmt"] == 4 else desc["start"]
            if a.get("hour_of_day") != 24 and "second_of_minute" in a:
                a["second_of_minute_decimal"] = rng.choice((0.5, 0.25, 0.75))
                ctx.cls("fractional-second-anchor")
        case = {"op": "queries", "desc": desc,
                "probe_seed": rng.randrange(10**9)}
        if k % 3 == 0:
            case["then_mode"] = rng.choice([m for m in R.MODES if m != mode])
            if k % 6 == 0:
                # around the leap day, where gregorian / 365day / 366day part
                a = desc["end"] if desc["fmt"] == 4 else desc["start"]
                if "month_of_year" in a and mode != "360day":
                    a.update(year=2020, month_of_year=2, day_of_month=27)
                    case["then_mode"] = "365day" if mode != "365day" \
                        else "gregorian"
                    if desc["fmt"] != 1:
                        desc["dur"] = {"days": 1}
                        desc["reps"] = 4
        ctx.case = case
        if k % 101 == 0:
            ctx.sample(case)
        run_case(ctx, repo, case)
