"""C19 - the command line prints exactly what the library computes.

Monitor: a wrapper on main.main records (argv, environment, stdout, stderr,
exit) of every invocation; the oracle compares stdout with the reference's
expectation (input spelled by the reference encoder, shifted with reference
point arithmetic, re-encoded in the input's notation; printed durations
parsed back and compared with the difference of reference instants; first N
recurrence points in order).  A probe on
DateTimeOperator.get_datetime_strptime records every decision the lenient
C-library fallback took.  A sample of invocations also runs as real child
processes."""
import contextlib
import io
import itertools
import os
import re
import zlib
import subprocess
import sys
import time as _time
from fractions import Fraction as F
from unittest import mock

from .. import core
from .. import gen
from .. import isotext as T
from .. import refmodel as R

RULE = ("cases = argument vectors built by the reference encoder: a "
        "date-time in any notation (calendar/ordinal/week x basic/extended x "
        "complete or reduced precision x time hh/hhmm/hhmmss x zone none/Z/"
        "+-hh/+-hhmm, expanded years) with 0-3 offsets of either sign in "
        "every option spelling (--offset, --offset=, -s, -1, --offset1, "
        "value spelled -P...), --utc, --calendar / ISODATETIMECALENDAR, "
        "--ref / ISODATETIMEREF, print formats; pairs of date-times with "
        "--offset1/--offset2 and --as-total; recurrences with --max; and "
        "malformed text in every positional slot and option value; "
        "non-trivial = at least one offset, a second date-time, a "
        "recurrence or a malformed argument; distinct by argv+environment")
DECIDING = ["main.post"]
MIN_EVALS = {"main.post": 2500}
ASSUMPTIONS = [
    "offsets are chosen expressible in the input's notation (whole units of "
    "its smallest field) so that 'same notation' is lossless",
    "results whose year cannot be written in the input's notation and an "
    "invalid ISODATETIMECALENDAR value are outside the property (R6) and "
    "are not generated",
]
MODES4 = ("gregorian", "360day", "365day", "366day")


def install(ctx, repo, probes):
    ctx.expect = None
    ctx.fallback_log = []

    def post_main(snap, args, kwargs, res, exc):
        ctx.ev("main.post")
    probes.wrap(repo.main, "main", post_main)

    def post_fallback(snap, args, kwargs, res, exc):
        ctx.ev("fallback.seen")
        if exc is None:
            ctx.ev("fallback.decided")
            ctx.fallback_log.append((args[1], args[2]))
    probes.wrap(repo.datetimeoper.DateTimeOperator, "get_datetime_strptime",
                post_fallback)
    for k in ("shift/cal", "shift/ord", "shift/week", "shift/reduced",
              "shift/basic", "shift/ext", "shift/expanded", "shift/no-zone",
              "shift/utc", "shift/negative-offset", "shift/multi-offset",
              "shift/nominal-offset", "shift/ref-env", "shift/ref-option",
              "shift/ref-option-over-env", "shift/plus-signed-offset",
              "shift/print-format", "shift/parse-format",
              "shift/print-strftime", "shift/print-strftime-fallback",
              "shift/parse-format-zone", "shift/parse-format-zone-utc",
              "shift/parse-format-ref",
              "shift/ctime-notation", "shift/ctime-notation-nominal-offset",
              "shift/print-strftime-same-instant-pair",
              "rec/last-printable-point", "diff/nominal-offset2-other-zone",
              "shift/print-strftime-fallback-week-date", "diff/plain", "diff/offsets",
              "diff/as-total", "diff/negative", "diff/print-format",
              "diff/tiny-seconds", "malformed/empty-item",
              "print-format/expanded-year", "diff/zero", "diff/zero-as-total",
              "diff/same-nominal-offsets-both-sides", "total/zero", "rec/forward", "rec/reverse",
              "total/duration", "malformed/exit", "child/ok",
              "child/malformed"):
        ctx.target(k)
    for m in MODES4:
        ctx.target("calendar/" + m)
        ctx.target("calendar/option-over-env/" + m)


def call_main(repo, argv, env=None, local=(0, 0)):
    """in-process invocation -> (stdout, stderr, exit) with exit None for a
    normal return, otherwise the SystemExit code; other exceptions
    propagate"""
    secs = (local[0] * 60 + local[1]) * 60
    m = mock.Mock(spec=_time)
    m.timezone = -secs
    m.altzone = -secs
    m.daylight = 0
    m.localtime.return_value = mock.Mock(tm_isdst=0)
    saved = {k: os.environ.get(k) for k in ("ISODATETIMEREF",
                                            "ISODATETIMECALENDAR")}
    for k in saved:
        os.environ.pop(k, None)
    for k, v in (env or {}).items():
        os.environ[k] = v
    out, err = io.StringIO(), io.StringIO()
    stdin = sys.stdin
    sys.stdin = io.StringIO("")
    code = None
    try:
        with mock.patch.object(repo.timezone, "time", m), \
                contextlib.redirect_stdout(out), \
                contextlib.redirect_stderr(err):
            try:
                repo.main.main(list(argv))
            except SystemExit as exc:
                code = exc.code if exc.code is not None else 0
    finally:
        sys.stdin = stdin
        for k, v in saved.items():
            os.environ.pop(k, None)
            if v is not None:
                os.environ[k] = v
        repo.CALENDAR.set_mode("gregorian")
    return out.getvalue(), err.getvalue(), code


# --------------------------------------------------------------------------
# reference spelling of inputs and expected outputs

def spell_point(rng, mode, allow_reduced=True, year=None):
    """-> (text, pt, notation) where pt is a reference point (local fields)
    and notation says how to re-encode a result"""
    rep = rng.choice(gen.REPS)
    ext = rng.random() < 0.6
    nexp = 2 if rng.random() < 0.12 else 0
    kind = "complete"
    if allow_reduced and rng.random() < 0.2:
        kind = rng.choice(("CCYY-MM", "CCYY", "CCYYWww", "date"))
    y = year if year is not None else gen.rand_year(rng, 1000, 8999)
    rd = gen.rand_rd(rng, mode, y, bias=0.6)
    tform = rng.choice(("hms", "hms", "hm", "h"))
    zform = rng.choice(("none", "Z", "hh", "hhmm"))
    if kind == "CCYY-MM":
        rep, ext = "cal", True
        yy, mm, _ = R.rd_to_ymd(mode, rd)
        date = (yy, mm, 1)
        dtext = T.enc_year(yy, nexp) + "-%02d" % mm
        tform, zform = "none", "none"
    elif kind == "CCYY":
        rep, ext = "cal", False
        yy = R.rd_to_ymd(mode, rd)[0]
        date = (yy, 1, 1)
        dtext = T.enc_year(yy, nexp)
        tform, zform = "none", "none"
    elif kind == "CCYYWww":
        rep = "week"
        wy, w, _ = R.rd_to_week(mode, rd)
        date = (wy, w, 1)
        dtext = T.enc_year(wy, nexp) + ("-" if ext else "") + "W%02d" % w
        tform, zform = "none", "none"
    else:
        date = R.rd_to_date(mode, rep, rd)
        dtext = T.enc_date(rep, date, ext, nexp)
        if kind == "date":
            tform, zform = "none", "none"
    if not (1000 <= date[0] <= 8999):
        return spell_point(rng, mode, allow_reduced, 2000)
    h, mi, s = rng.randrange(24), rng.randrange(60), rng.randrange(60)
    if tform == "none":
        h = mi = s = 0
        ttext = ""
    elif tform == "hms":
        ttext = "T" + T.enc_time(h, mi, s, ext)
    elif tform == "hm":
        s = 0
        ttext = "T" + T.enc_time(h, mi, None, ext)
    else:
        mi = s = 0
        ttext = "T" + T.enc_time(h, None, None, ext)
    off = (0, 0)
    ztext = ""
    if zform == "Z":
        ztext = "Z"
    elif zform in ("hh", "hhmm"):
        off = gen.rand_offset(rng, wide=False)
        if zform == "hh":
            off = (off[0], 0)
        ztext = T.enc_zone(off, zform, ext)
    pt = {"rep": rep, "date": tuple(date), "sod": F(h * 3600 + mi * 60 + s),
          "off": off[0] * 60 + off[1]}
    notation = {"rep": rep, "ext": ext, "nexp": nexp, "kind": kind,
                "tform": tform, "zform": zform}
    return dtext + ttext + ztext, pt, notation


def to_utc(mode, pt):
    if pt["off"] == 0:
        return pt
    inst = R.pt_instant(mode, pt)
    rd, sod = divmod(inst, 86400)
    return {"rep": pt["rep"], "date": tuple(R.rd_to_date(
        mode, pt["rep"], int(rd))), "sod": sod, "off": 0}


def encode_result(mode, pt, notation, utc=False):
    """re-encode a reference point in the notation of the input"""
    if utc:
        pt = to_utc(mode, pt)
    n = notation
    date = pt["date"]
    kind = n["kind"]
    if kind == "CCYY-MM":
        dtext = T.enc_year(date[0], n["nexp"]) + "-%02d" % date[1]
    elif kind == "CCYY":
        dtext = T.enc_year(date[0], n["nexp"])
    elif kind == "CCYYWww":
        dtext = T.enc_year(date[0], n["nexp"]) + (
            "-" if n["ext"] else "") + "W%02d" % date[1]
    else:
        dtext = T.enc_date(n["rep"], date, n["ext"], n["nexp"])
    sod = int(pt["sod"])
    h, rem = divmod(sod, 3600)
    mi, s = divmod(rem, 60)
    if n["tform"] == "none":
        ttext = ""
    elif n["tform"] == "hms":
        ttext = "T" + T.enc_time(h, mi, s, n["ext"])
    elif n["tform"] == "hm":
        ttext = "T" + T.enc_time(h, mi, None, n["ext"])
    else:
        ttext = "T" + T.enc_time(h, None, None, n["ext"])
    if n["zform"] == "none":
        ztext = ""
    elif n["zform"] == "Z":
        ztext = "Z"
    else:
        oh, om = divmod(abs(pt["off"]), 60)
        sign = -1 if pt["off"] < 0 else 1
        ztext = T.enc_zone((sign * oh, sign * om), n["zform"], n["ext"])
    return dtext + ttext + ztext


def spell_offset(rng, notation, nominal_ok=True):
    """an offset expressible in the notation -> (text, (y, m, secs))"""
    unit = {"hms": 1, "hm": 60, "h": 3600, "none": 86400}[notation["tform"]]
    kind = notation["kind"]
    sign = rng.choice((1, 1, -1))
    y = mth = 0
    secs = 0
    parts = ""
    if kind == "CCYY":
        y = rng.randint(1, 30)
        parts = "%dY" % y
    elif kind == "CCYY-MM":
        if rng.random() < 0.5:
            y = rng.randint(1, 5)
            parts += "%dY" % y
        mth = rng.randint(1, 30)
        parts += "%dM" % mth
    elif kind == "CCYYWww":
        w = rng.randint(1, 60)
        secs = w * 7 * 86400
        parts = "%dW" % w
    elif unit == 1 and rng.random() < 0.12:
        # the alternative (date-time like) spelling (the command line takes
        # its sign off before the duration parser sees it); the seconds may
        # hide in a decimal minute or hour
        d, hh, mm = rng.randint(0, 28), rng.randrange(24), rng.randrange(60)
        form = rng.choice(("hms", "hm,", "h,", "basic"))
        if form == "hms":
            ss = rng.randrange(60)
            text = "P0000-00-%02dT%02d:%02d:%02d" % (d, hh, mm, ss)
            secs = ss
        elif form == "basic":
            ss = rng.randrange(60)
            text = "P000000%02dT%02d%02d%02d" % (d, hh, mm, ss)
            secs = ss
        elif form == "hm,":
            text = "P0000-00-%02dT%02d:%02d,5" % (d, hh, mm)
            secs = 30
        else:
            mm = rng.choice((0, 15, 30, 45))
            text = "P0000-00-%02dT%02d,%s" % (
                d, hh, {0: "0", 15: "25", 30: "5", 45: "75"}[mm])
            secs = 0
        secs += d * 86400 + hh * 3600 + mm * 60
        if sign < 0:
            text = "-" + text
        return text, (0, 0, sign * secs)
    else:
        v = rng.random()
        if nominal_ok and v < 0.25:
            if rng.random() < 0.5:
                y = rng.randint(1, 12)
                parts += "%dY" % y
            if rng.random() < 0.7 or not y:
                mth = rng.randint(1, 25)
                parts += "%dM" % mth
        if v >= 0.15:
            if rng.random() < 0.1:
                w = rng.randint(1, 9)
                if not parts:
                    secs = w * 7 * 86400
                    parts = "%dW" % w
            if "W" not in parts:
                d = rng.choice((0, 0, 1, 2, 30, 365, rng.randint(1, 800)))
                tparts = ""
                if d:
                    secs += d * 86400
                    parts += "%dD" % d
                if unit <= 3600 and rng.random() < 0.6:
                    hh = rng.randint(1, 50)
                    secs += hh * 3600
                    tparts += "%dH" % hh
                if unit <= 60 and rng.random() < 0.5:
                    mm = rng.randint(1, 90)
                    secs += mm * 60
                    tparts += "%dM" % mm
                if unit <= 1 and rng.random() < 0.5:
                    ss = rng.randint(1, 90)
                    secs += ss
                    tparts += "%dS" % ss
                if tparts:
                    parts += "T" + tparts
        if not parts:
            parts = "1D"
            secs = 86400
    text = ("-" if sign < 0 else "") + "P" + parts
    return text, (sign * y, sign * mth, sign * secs)


def offset_args(rng, texts, second=False):
    out = []
    for t in texts:
        if not t.startswith("-") and rng.random() < 0.2:
            t = "+" + t       # the documented explicit sign
        if second:
            style = rng.choice(("--offset2", "-2", "--offset2="))
        else:
            style = rng.choice(("--offset", "--offset=", "-s", "-1",
                                "--offset1", "--offset1="))
        if style.endswith("="):
            out.append(style + t)
        else:
            out += [style, t]
    return out


DUR_RX = re.compile(
    r"^(-)?P(?:(\d+)Y)?(?:(\d+)M)?(?:(\d+)W)?(?:(\d+)D)?"
    r"(?:T(?:([\d,]+)H)?(?:([\d,]+)M)?(?:([\d,]+(?:e-\d+)?)S)?)?$")


def parse_exact_duration(text):
    """-> signed length in seconds (Fraction) or None"""
    m = DUR_RX.match(text.strip())
    if not m:
        return None
    sign, y, mo, w, d, h, mi, s = m.groups()
    if (y and int(y)) or (mo and int(mo)):
        return None

    def num(x):
        return F(x.replace(",", ".")) if x else F(0)
    total = num(w) * 7 * 86400 + num(d) * 86400 + num(h) * 3600 + \
        num(mi) * 60 + num(s)
    return -total if sign else total


def apply_offsets(mode, pt, offs):
    for dt in offs:
        pt = R.pt_add(mode, pt, dt)
    return pt


def in_local(mode, pt, local_min):
    """a zone-less input is read in the local zone"""
    pt = dict(pt)
    pt["off"] = local_min
    return pt


# --------------------------------------------------------------------------

def make_shift(rng, mode_how):
    mode, how = mode_how
    text, pt, notation = spell_point(rng, mode)
    local = rng.choice(((0, 0), (0, 0), (5, 30), (-3, -30), (0, -30)))
    utc = rng.random() < 0.2
    if notation["zform"] == "none":
        pt = in_local(mode, pt, 0 if utc else local[0] * 60 + local[1])
    noffs = rng.choice((0, 1, 1, 1, 2, 3))
    offs = [spell_offset(rng, notation) for _ in range(noffs)]
    argv = []
    env = {}
    refmode = rng.random()
    if refmode < 0.08:
        env["ISODATETIMEREF"] = text
        item = "ref"
    elif refmode < 0.16:
        argv += [rng.choice(("--ref", "-R")), text]
        item = "ref"
        if refmode < 0.12:
            # the option says which reference point, whatever the variable
            env["ISODATETIMEREF"] = rng.choice((
                "20371225T000000Z", "1999-12-31T23:59:59+01:00"))
    else:
        item = text
    pieces = [[item], offset_args(rng, [o[0] for o in offs])]
    if utc:
        pieces.append([rng.choice(("--utc", "-u"))])
    if how == "option":
        pieces.append(["--calendar", mode] if rng.random() < 0.5
                      else ["--calendar=" + mode])
    elif how == "both":
        # the option wins over the environment variable
        pieces.append(["--calendar", mode] if rng.random() < 0.5
                      else ["--calendar=" + mode])
        env["ISODATETIMECALENDAR"] = rng.choice(
            [m for m in MODES4 if m != mode])
    elif how == "env":
        env["ISODATETIMECALENDAR"] = mode
    rng.shuffle(pieces)
    for p in pieces:
        argv += p
    if utc:
        # UTC mode parses into UTC: offsets act on the UTC-expressed point
        pt = to_utc(mode, pt)
    result = apply_offsets(mode, pt, [o[1] for o in offs])
    if not 1000 <= result["date"][0] <= 8999:
        return make_shift(rng, mode_how)
    expect = encode_result(mode, result, notation, utc=utc) + "\n"
    classes = ["shift/" + notation["rep"],
               "shift/" + ("ext" if notation["ext"] else "basic"),
               "calendar/" + mode]
    if notation["kind"] != "complete":
        classes.append("shift/reduced")
    if notation["nexp"]:
        classes.append("shift/expanded")
    if notation["zform"] == "none":
        classes.append("shift/no-zone")
    if utc:
        classes.append("shift/utc")
    if any(o[0].startswith("-") for o in offs):
        classes.append("shift/negative-offset")
    if len(offs) > 1:
        classes.append("shift/multi-offset")
    if any(o[1][0] or o[1][1] for o in offs):
        classes.append("shift/nominal-offset")
    if how == "both":
        classes.append("calendar/option-over-env/" + mode)
    if "ISODATETIMEREF" in env and env["ISODATETIMEREF"] == text:
        classes.append("shift/ref-env")
    elif "ISODATETIMEREF" in env:
        classes.append("shift/ref-option-over-env")
    if item == "ref" and "ISODATETIMEREF" not in env:
        classes.append("shift/ref-option")
    if any(a.startswith("+P") or "=+P" in a for a in argv):
        classes.append("shift/plus-signed-offset")
    return {"op": "run", "argv": argv, "env": env, "local": list(local),
            "expect": {"stdout": expect}, "classes": classes,
            "nontrivial": bool(offs)}


PRINT_FORMATS = (
    ("CCYY-MM-DDThh:mm:ssZ", {"rep": "cal", "ext": True, "nexp": 0,
                              "kind": "complete", "tform": "hms",
                              "zform": "Z"}, True),
    ("CCYYDDDThhmmss+hhmm", {"rep": "ord", "ext": False, "nexp": 0,
                             "kind": "complete", "tform": "hms",
                             "zform": "hhmm"}, False),
    ("CCYY-Www-DThh:mm+hh:mm", {"rep": "week", "ext": True, "nexp": 0,
                                "kind": "complete", "tform": "hm",
                                "zform": "hhmm"}, False),
    ("CCYY-MM-DD", {"rep": "cal", "ext": True, "nexp": 0, "kind": "date",
                    "tform": "none", "zform": "none"}, False),
)


def make_print_format(rng, mode):
    text, pt, notation = spell_point(rng, mode, allow_reduced=False)
    notation_in = dict(notation)
    if notation["zform"] == "none":
        pt = in_local(mode, pt, 0)
    offs = [spell_offset(rng, notation)]
    fmt, nout, to_utc = rng.choice(PRINT_FORMATS)
    result = apply_offsets(mode, pt, [o[1] for o in offs])
    # re-express in the output representation
    rd = R.date_to_rd(mode, result["rep"], result["date"])
    res2 = dict(result)
    res2["rep"] = nout["rep"]
    res2["date"] = tuple(R.rd_to_date(mode, nout["rep"], rd))
    if not 1000 <= res2["date"][0] <= 8999:
        return make_print_format(rng, mode)
    expect = encode_result(mode, res2, nout, utc=to_utc) + "\n"
    argv = [text] + offset_args(rng, [offs[0][0]]) + [
        rng.choice(("--print-format", "--format", "-f")), fmt,
        "--calendar", mode]
    return {"op": "run", "argv": argv, "env": {}, "local": [0, 0],
            "expect": {"stdout": expect},
            "classes": ["shift/print-format", "calendar/" + mode],
            "nontrivial": True}


STRFTIME_PRINT_FORMATS = (
    # understood by the library's own strftime
    "%Y-%m-%dT%H:%M:%S", "%d/%m/%Y %H:%M", "%Y%m%d %j",
    # only the C-library fallback knows these directives
    "%a %d %b %Y", "%A, %d %B %Y %H:%M:%S", "%y%m%d", "%b %e %Y",
    "%Y-%m-%d %a", "%d %b %y %H:%M",
)


def make_print_strftime(rng):
    """Gregorian only: a strftime-style --print-format; expected text from
    datetime.strftime (C locale) on the reference's calendar fields"""
    import datetime as _dt
    mode = "gregorian"
    text, pt, notation = spell_point(rng, mode, allow_reduced=False)
    if rng.random() < 0.4:
        # near New Year (where an ISO week-year differs from the civil year)
        y = gen.rand_year(rng, 1000, 8999)
        rd = R.days_before_year(mode, y) + rng.choice((-3, -2, -1, 0, 1, 2))
        rep = notation["rep"]
        date = tuple(R.rd_to_date(mode, rep, rd))
        notation = dict(notation, nexp=0, kind="complete")
        pt = dict(pt, date=date)
        sod = int(pt["sod"])
        h, rem = divmod(sod, 3600)
        mi, sec = divmod(rem, 60)
        tt = {"hms": "T" + T.enc_time(h, mi, sec, notation["ext"]),
              "hm": "T" + T.enc_time(h, mi, None, notation["ext"]),
              "h": "T" + T.enc_time(h, None, None, notation["ext"]),
              "none": ""}[notation["tform"]]
        zt = ""
        if notation["zform"] == "Z":
            zt = "Z"
        elif notation["zform"] in ("hh", "hhmm"):
            zt = T.enc_zone(divmod_off(pt["off"]), notation["zform"],
                            notation["ext"])
        text = T.enc_date(rep, date, notation["ext"], 0) + tt + zt
    if notation["zform"] == "none":
        pt = in_local(mode, pt, 0)
    offs = [spell_offset(rng, notation, nominal_ok=False)
            for _ in range(rng.choice((0, 1)))]
    result = apply_offsets(mode, pt, [o[1] for o in offs])
    rd = R.date_to_rd(mode, result["rep"], result["date"])
    sod = int(result["sod"])
    rd, sod = rd + sod // 86400, sod % 86400
    y, mth, d = R.rd_to_ymd(mode, rd)
    if not 1000 <= y <= 8999:
        return make_print_strftime(rng)
    fmt = rng.choice(STRFTIME_PRINT_FORMATS)
    expect = _dt.datetime(y, mth, d, sod // 3600, sod // 60 % 60,
                          sod % 60).strftime(fmt) + "\n"
    argv = [text] + offset_args(rng, [o[0] for o in offs]) + [
        rng.choice(("--print-format", "--format=", "-f"))]
    if argv[-1].endswith("="):
        argv[-1] += fmt
    else:
        argv.append(fmt)
    cls = ["shift/print-strftime"]
    if "%a" in fmt or "%b" in fmt or "%A" in fmt or "%y" in fmt:
        cls.append("shift/print-strftime-fallback")
        if notation["rep"] == "week":
            cls.append("shift/print-strftime-fallback-week-date")
    return {"op": "run", "argv": argv, "env": {}, "local": [0, 0],
            "expect": {"stdout": expect}, "classes": cls,
            "nontrivial": True}


def week_date_fallback_cases():
    """week-date arguments on days whose ISO week-year is not their civil
    year, printed with directives only the C library knows"""
    import datetime as _dt
    for text, (y, m, d) in (("2020-W53-5T06:07:08Z", (2021, 1, 1)),
                            ("2015-W53-7T06:07:08Z", (2016, 1, 3)),
                            ("2020-W01-1T06:07:08Z", (2019, 12, 30)),
                            ("2009W537T060708Z", (2010, 1, 3)),
                            ("2019-W01-2T06:07:08Z", (2019, 1, 1 - 0))):
        if text.startswith("2019-W01-2"):
            y, m, d = 2019, 1, 1
        for fmt in ("%a %d %b %Y", "%A %B %d %y", "%Y-%m-%d %H:%M:%S"):
            out = _dt.datetime(y, m, d, 6, 7, 8).strftime(fmt)
            yield {"op": "run", "argv": [text, "-f", fmt], "env": {},
                   "local": [0, 0], "expect": {"stdout": out + "\n"},
                   "classes": ["shift/print-strftime-fallback-week-date"],
                   "nontrivial": True}


def tiny_diff_cases():
    """differences whose seconds part is below 1e-4 (str() of such a number
    has an exponent), plain, as a total and through the duration format"""
    for t1, t2, secs in (
            ("2020-01-01T00:00:00Z", "2020-01-01T00:00:00,00001Z",
             F(1, 100000)),
            ("2020-01-01T00:00:00Z", "2020-01-03T00:05:00,00005Z",
             2 * 86400 + 300 + F(5, 100000)),
            ("2020-01-03T00:05:00,00005Z", "2020-01-01T00:00:00Z",
             -(2 * 86400 + 300 + F(5, 100000))),
            ("2020-02-28T23:59:59,99999Z", "2020-02-29T00:00:00+00:00",
             F(1, 100000))):
        for tail in ((), ("--as-total=S",), ("--as-total", "H"),
                     ("--as-total=m",)):
            expect = {"duration_seconds": [secs.numerator, secs.denominator],
                      "tolerance": True}
            if tail:
                expect["total_unit"] = tail[-1][-1].upper()
            yield {"op": "run", "argv": [t1, t2] + list(tail), "env": {},
                   "local": [0, 0], "expect": expect,
                   "classes": ["diff/tiny-seconds"], "nontrivial": True}


def diff_zone_cases():
    """two date-times in different zones, the second on a day that is
    another calendar day in the first one's zone, with a month or year
    offset on the second: each point is shifted in its own zone"""
    mode = "gregorian"
    for t1, t2, o2 in (
            ("2020-01-01T00:00:00Z", "2020-03-01T00:30:00+01:00", "P1M"),
            ("2020-01-01T00:00:00Z", "2020-03-01T00:30:00+01:00", "-P1M"),
            ("2019-06-01T12:00:00+05:30", "2020-02-29T23:30:00-01:00", "P1Y"),
            ("2021-01-01T00:00:00-08:00", "2021-01-31T20:00:00-08:00", "P1M"),
            ("2020-12-31T22:00:00Z", "2021-01-01T03:00:00+05:00", "-P1M"),
            ("2020-05-31T00:10:00+02:00", "2020-05-30T23:50:00Z", "P1M")):
        def rd_of(text):
            y, m, d = int(text[0:4]), int(text[5:7]), int(text[8:10])
            H, M, S = int(text[11:13]), int(text[14:16]), int(text[17:19])
            z = text[19:]
            off = 0 if z == "Z" else (1 if z[0] == "+" else -1) * (
                int(z[1:3]) * 60 + int(z[4:6]))
            return {"rep": "cal", "date": (y, m, d),
                    "sod": F(H * 3600 + M * 60 + S), "off": off}
        sign = -1 if o2.startswith("-") else 1
        body = o2.lstrip("-")
        dt = (sign if body == "P1Y" else 0, sign if body == "P1M" else 0, 0)
        a = rd_of(t1)
        b = R.pt_add(mode, rd_of(t2), dt)
        length = R.pt_instant(mode, b) - R.pt_instant(mode, a)
        for style in ("--offset2=" + o2, ):
            yield {"op": "run", "argv": [t1, t2, style], "env": {},
                   "local": [0, 0],
                   "expect": {"duration_seconds": [length.numerator,
                                                   length.denominator]},
                   "classes": ["diff/offsets",
                               "diff/nominal-offset2-other-zone"],
                   "nontrivial": True}


def rec_edge_cases():
    """--max=N prints N points even when point N+1 could not be printed
    (beyond the last / before the first year the notation can hold)"""
    for argv, out in (
            (["R/P1Y/0001-01-01T00:00:00Z", "--max=2"],
             "0001-01-01T00:00:00Z\n0000-01-01T00:00:00Z\n"),
            (["R/9998-01-01T00:00:00Z/P1Y", "--max=2"],
             "9998-01-01T00:00:00Z\n9999-01-01T00:00:00Z\n"),
            (["R/9998-01-01T00:00:00Z/P1Y", "--max=2", "-f", "%Y"],
             "9998\n9999\n"),
            (["R/9999-12-30T00:00:00Z/P1D", "--max=2"],
             "9999-12-30T00:00:00Z\n9999-12-31T00:00:00Z\n"),
            (["R/9999-12-31T00:00:00Z/P1D", "--max=1"],
             "9999-12-31T00:00:00Z\n"),
            (["R/P1D/0000-01-02T00:00:00Z", "--max=2"],
             "0000-01-02T00:00:00Z\n0000-01-01T00:00:00Z\n")):
        yield {"op": "run", "argv": argv, "env": {}, "local": [0, 0],
               "expect": {"stdout": out},
               "classes": ["rec/last-printable-point"], "nontrivial": True}


def make_strftime_pair(rng):
    """two command lines, one after the other in the same process: the same
    instant written in two UTC offsets, printed with the same format (each
    shows its own local fields)"""
    import datetime as _dt
    mode = "gregorian"
    y = gen.rand_year(rng, 1000, 8999)
    inst = gen.rand_rd(rng, mode, y, bias=0.5) * 86400 + rng.randrange(86400)
    fmt = rng.choice(("%a %d %b %Y %H:%M", "%A %B %d %H:%M:%S",
                      "%Y-%m-%d %H:%M:%S", "%d/%m/%y %H.%M"))
    out = []
    for off in rng.sample(((0, 0), (5, 30), (-8, 0), (13, 45), (-3, -30)), 2):
        local = inst + (off[0] * 60 + off[1]) * 60
        rd, sod = divmod(local, 86400)
        yy, mm, dd = R.rd_to_ymd(mode, rd)
        if not 1000 <= yy <= 8999:
            return make_strftime_pair(rng)
        H, M, S = sod // 3600, sod // 60 % 60, sod % 60
        text = "%04d-%02d-%02dT%02d:%02d:%02d%s" % (
            yy, mm, dd, H, M, S, T.enc_zone(off, "hhmm", True)
            if off != (0, 0) else "Z")
        expect = _dt.datetime(yy, mm, dd, H, M, S).strftime(fmt) + "\n"
        out.append({"op": "run", "argv": [text, "--print-format=" + fmt],
                    "env": {}, "local": [0, 0], "expect": {"stdout": expect},
                    "classes": ["shift/print-strftime-same-instant-pair"],
                    "nontrivial": True})
    return out


def divmod_off(minutes):
    sign = -1 if minutes < 0 else 1
    h, m = divmod(abs(minutes), 60)
    return (sign * h, sign * m)


def make_diff(rng, mode):
    t1, p1, n1 = spell_point(rng, mode, allow_reduced=False)
    t2, p2, n2 = spell_point(rng, mode, allow_reduced=False,
                             year=p1["date"][0] + rng.choice((0, 0, 1, -1,
                                                              rng.randint(
                                                                  -50, 50))))
    local = rng.choice(((0, 0), (5, 30), (-3, -30)))
    lm = local[0] * 60 + local[1]
    if n1["zform"] == "none":
        p1 = in_local(mode, p1, lm)
    if n2["zform"] == "none":
        p2 = in_local(mode, p2, lm)
    same_point = rng.random() < 0.12
    if same_point:
        # the same instant twice: a zero difference (prints P0Y / 0.0)
        t2, p2, n2 = t1, dict(p1), n1
    nominal_ok = p1.get("sod") != 86400 and p2.get("sod") != 86400 and \
        rng.random() < 0.4
    o1 = [spell_offset(rng, n1, nominal_ok=nominal_ok)
          for _ in range(rng.choice((0, 0, 1)))]
    o2 = [spell_offset(rng, n2, nominal_ok=nominal_ok)
          for _ in range(rng.choice((0, 0, 1)))]
    if rng.random() < 0.3:
        # the same list of offsets on both sides (each side is still
        # shifted on its own: a month is not the same length everywhere)
        if not o1:
            o1 = [spell_offset(rng, n1, nominal_ok=nominal_ok)]
        o2 = list(o1)
    argv = [t1, t2] + offset_args(rng, [o[0] for o in o1]) + \
        offset_args(rng, [o[0] for o in o2], second=True) + \
        ["--calendar", mode]
    a = apply_offsets(mode, p1, [o[1] for o in o1])
    b = apply_offsets(mode, p2, [o[1] for o in o2])
    length = R.pt_instant(mode, b) - R.pt_instant(mode, a)
    classes = ["diff/offsets" if (o1 or o2) else "diff/plain",
               "calendar/" + mode]
    if o1 and o1 == o2:
        classes.append("diff/same-offsets-both-sides")
        if any(o[1][0] or o[1][1] for o in o1):
            classes.append("diff/same-nominal-offsets-both-sides")
    if length == 0:
        classes.append("diff/zero")
    if length < 0:
        classes.append("diff/negative")
    expect = {"duration_seconds": [length.numerator, length.denominator]}
    if rng.random() < (0.6 if length == 0 else 0.3):
        unit = rng.choice("HMShms")
        if length == 0:
            classes.append("diff/zero-as-total")
        argv += [rng.choice(("--as-total", "--as-total=")) + (
            "" if False else "")]
        if argv[-1].endswith("="):
            argv[-1] += unit
        else:
            argv.append(unit)
        expect["total_unit"] = unit.upper()
        classes.append("diff/as-total")
    elif zlib.crc32(" ".join(argv).encode()) % 4 == 0:
        # the duration print format: each letter of y m d h M s stands for
        # that component of the (sign-prefixed) difference
        argv += [("-f", "--format", "--print-format")[len(argv) % 3],
                 "y;m;d;h;M;s"]
        expect["format_fields"] = True
        classes.append("diff/print-format")
    return {"op": "run", "argv": argv, "env": {}, "local": list(local),
            "expect": expect, "classes": classes, "nontrivial": True}


def make_total(rng):
    d = gen.rand_exact_dur(rng, integral=True)
    d = {k: abs(v) for k, v in d.items() if v}
    if not d:
        d = {"hours": 1}
    if rng.random() < 0.08:
        text = rng.choice(("PT0S", "P0D", "P0W", "PT0H0M0S", "P0DT0H"))
        unit = rng.choice("HMS")
        return {"op": "run", "argv": ["--as-total=" + unit, text], "env": {},
                "local": [0, 0],
                "expect": {"duration_seconds": [0, 1], "total_unit": unit,
                           "bare_total": True},
                "classes": ["total/duration", "total/zero"],
                "nontrivial": True}
    secs = (d.get("weeks", 0) * 7 * 86400 + d.get("days", 0) * 86400 +
            d.get("hours", 0) * 3600 + d.get("minutes", 0) * 60 +
            d.get("seconds", 0))
    if "weeks" in d:
        text = "P%dW" % d["weeks"]
    else:
        text = "P" + ("%dD" % d["days"] if d.get("days") else "")
        tp = "".join("%d%s" % (d[k], u) for k, u in (
            ("hours", "H"), ("minutes", "M"), ("seconds", "S")) if d.get(k))
        text += ("T" + tp) if tp else ""
    neg = rng.random() < 0.3
    unit = rng.choice("HMS")
    argv = ["--as-total=" + unit, ("\\-" if False else "-") + text
            if neg else text]
    if neg:
        secs = -secs
    return {"op": "run", "argv": argv, "env": {}, "local": [0, 0],
            "expect": {"duration_seconds": [secs, 1], "total_unit": unit,
                       "bare_total": True},
            "classes": ["total/duration"], "nontrivial": True}


def make_rec(rng, mode):
    text, pt, notation = spell_point(rng, mode, allow_reduced=False)
    if notation["zform"] == "none":
        pt = in_local(mode, pt, 0)
    n = rng.choice((None, 2, 3, 5, 12))
    mx = rng.choice((None, 1, 3, 4, 10, 15))
    dtext, dt = spell_offset(rng, {"tform": "hms", "kind": "complete"},
                             nominal_ok=True)
    if dtext.startswith("-"):
        dtext = dtext[1:]
        dt = tuple(-x for x in dt)
    if not any(dt):
        # an interval of no length (P0000-00-00T00,0): the library reads
        # such a series as its single anchor point (C12), nothing for the
        # command line to add
        return make_rec(rng, mode)
    reverse = rng.random() < 0.3 and n is None
    nominal = bool(dt[0] or dt[1])
    if n is not None and nominal:
        n = None        # bounded month/year series: C12's known finding
    if reverse:
        expr = "R/%s/%s" % (dtext, text)
        step = tuple(-x for x in dt)
    else:
        expr = "R%s/%s/%s" % ("" if n is None else n, text, dtext)
        step = dt
    limit = mx if mx is not None else 10
    count = limit if n is None else min(n, limit)
    pts = [pt]
    for _ in range(count - 1):
        pts.append(R.pt_add(mode, pts[-1], step))
    if not all(1000 <= p["date"][0] <= 8999 for p in pts):
        return make_rec(rng, mode)
    default = {"rep": notation["rep"], "ext": True, "nexp": 0,
               "kind": "complete", "tform": "hms",
               "zform": "Z" if pt["off"] == 0 else "hhmm"}
    if notation["nexp"]:
        default["nexp"] = 2
    lines = [encode_result(mode, p, default) for p in pts]
    argv = [expr, "--calendar", mode]
    if mx is not None:
        argv.append("--max=%d" % mx)
    return {"op": "run", "argv": argv, "env": {}, "local": [0, 0],
            "expect": {"stdout": "\n".join(lines) + "\n"},
            "classes": ["rec/reverse" if reverse else "rec/forward",
                        "calendar/" + mode], "nontrivial": True}


GARBAGE = ["garbage", "2000-13-01", "2000-02-30T00Z", "20000101T25", "T06",
           "2000-W54-1", "2000-367", "12:30", "2000-01-01T00:00:60Z", "P1D",
           "R/2000/garbage", "R5/2000", "2000-01-01T00+99:60", "20001",
           "--", "٢٠٠٠", "2000-1-1", "now+1",
           "2000-01-01 00:00", "R0/2000/P1D", "R/P1D/P1D", "1e3"]


PARSE_FORMATS = (("%d/%m/%Y %H:%M:%S", "{d:02d}/{m:02d}/{y:04d} "
                  "{H:02d}:{M:02d}:{S:02d}"),
                 ("%Y%j%H%M", None), ("%H:%M:%S %Y-%m-%d",
                                       "{H:02d}:{M:02d}:{S:02d} "
                                       "{y:04d}-{m:02d}-{d:02d}"))


def make_parse_format(rng, mode):
    """a custom --parse-format over supported directives: the output uses
    the same format"""
    y = gen.rand_year(rng, 1000, 8999)
    rd = gen.rand_rd(rng, mode, y, bias=0.6)
    yy, mm, dd = R.rd_to_ymd(mode, rd)
    H, M, S = rng.randrange(24), rng.randrange(60), rng.randrange(60)
    fmt, tmpl = rng.choice([pf for pf in PARSE_FORMATS if pf[1]])
    text = tmpl.format(y=yy, m=mm, d=dd, H=H, M=M, S=S)
    pt = {"rep": "cal", "date": (yy, mm, dd), "sod": F(H * 3600 + M * 60 + S),
          "off": 0}
    otext, dt = spell_offset(rng, {"tform": "hms", "kind": "complete"})
    res = R.pt_add(mode, pt, dt)
    if not 1000 <= res["date"][0] <= 8999:
        return make_parse_format(rng, mode)
    sod = int(res["sod"])
    out = tmpl.format(y=res["date"][0], m=res["date"][1], d=res["date"][2],
                      H=sod // 3600, M=sod % 3600 // 60, S=sod % 60)
    argv = [rng.choice(("--parse-format", "-p")), fmt, text,
            "--offset=" + otext, "--calendar", mode]
    env = {}
    classes = ["shift/parse-format", "calendar/" + mode]
    v = rng.random()
    if v < 0.3:
        # the same text given as the reference point (option or variable)
        # and named by the ref item: it is read with the parse format too
        argv[2] = "ref"
        if v < 0.15:
            argv += [rng.choice(("--ref", "-R")), text]
        else:
            env["ISODATETIMEREF"] = text
        classes.append("shift/parse-format-ref")
    return {"op": "run", "argv": argv, "env": env, "local": [0, 0],
            "expect": {"stdout": out + "\n"},
            "classes": classes, "nontrivial": True}


def make_parse_format_zone(rng, mode):
    """a --parse-format that reads a numeric zone (%z), with and without
    --utc: the output uses the same format, in the input's zone or in UTC"""
    y = gen.rand_year(rng, 1000, 8999)
    rd = gen.rand_rd(rng, mode, y, bias=0.6)
    yy, mm, dd = R.rd_to_ymd(mode, rd)
    H, M, S = rng.randrange(24), rng.randrange(60), rng.randrange(60)
    off = rng.choice(((5, 30), (-3, -30), (0, 0), (1, 0), (-11, 0), (13, 45)))
    utc = rng.random() < 0.6

    def zone(minutes):
        sign = "-" if minutes < 0 else "+"
        return "%s%02d%02d" % (sign, abs(minutes) // 60, abs(minutes) % 60)
    tmpl = "{y:04d}-{m:02d}-{d:02d}T{H:02d}:{M:02d}:{S:02d}"
    offm = off[0] * 60 + off[1]
    text = tmpl.format(y=yy, m=mm, d=dd, H=H, M=M, S=S) + zone(offm)
    pt = {"rep": "cal", "date": (yy, mm, dd), "sod": F(H * 3600 + M * 60 + S),
          "off": offm}
    if utc:
        pt = to_utc(mode, pt)
    otext, dt = spell_offset(rng, {"tform": "hms", "kind": "complete"})
    res = R.pt_add(mode, pt, dt)
    if not 1000 <= res["date"][0] <= 8999:
        return make_parse_format_zone(rng, mode)
    sod = int(res["sod"])
    out = tmpl.format(y=res["date"][0], m=res["date"][1], d=res["date"][2],
                      H=sod // 3600, M=sod % 3600 // 60, S=sod % 60) + \
        zone(res["off"])
    argv = [rng.choice(("--parse-format", "-p")), "%Y-%m-%dT%H:%M:%S%z", text,
            "--offset=" + otext, "--calendar", mode]
    if utc:
        argv.insert(rng.randrange(len(argv) - 1) if False else 0,
                    rng.choice(("--utc", "-u")))
    return {"op": "run", "argv": argv, "env": {}, "local": [0, 0],
            "expect": {"stdout": out + "\n"},
            "classes": ["shift/parse-format-zone" + ("-utc" if utc else ""),
                        "calendar/" + mode],
            "nontrivial": True}


def ctime_fixed_cases():
    """leap days, 1 March and month ends in the ctime notation, shifted by
    whole years and months (independent of the seed)"""
    import datetime as _dt
    fmt = "%a %b %d %H:%M:%S %Y"
    for (y, m, d), otext, dt in (
            ((2020, 3, 1), "P1Y", (1, 0, 0)), ((2021, 3, 1), "-P1Y",
                                               (-1, 0, 0)),
            ((2020, 2, 29), "P1Y", (1, 0, 0)), ((2020, 2, 29), "P4Y",
                                                (4, 0, 0)),
            ((2019, 12, 31), "P2M", (0, 2, 0)), ((2020, 1, 31), "P1M",
                                                 (0, 1, 0)),
            ((2020, 12, 31), "-P1Y", (-1, 0, 0)),
            ((2021, 6, 15), "P1Y1M", (1, 1, 0)),
            ((2020, 3, 31), "-P1M", (0, -1, 0)),
            ((2020, 10, 1), "P1D", (0, 0, 86400))):
        pt = {"rep": "cal", "date": (y, m, d), "sod": F(6 * 3600 + 7 * 60 + 8),
              "off": 0}
        res = R.pt_add("gregorian", pt, dt)
        out = _dt.datetime(res["date"][0], res["date"][1], res["date"][2],
                           6, 7, 8).strftime(fmt)
        text = _dt.datetime(y, m, d, 6, 7, 8).strftime(fmt)
        yield {"op": "run", "argv": [text, "--offset=" + otext], "env": {},
               "local": [0, 0], "expect": {"stdout": out + "\n"},
               "classes": ["shift/ctime-notation",
                           "shift/ctime-notation-nominal-offset"],
               "nontrivial": True}


def make_ctime(rng):
    """the documented ctime notation (Gregorian, C locale): read, shifted -
    also by months and years from leap days and month ends - and printed
    back in the same notation"""
    import datetime as _dt
    mode = "gregorian"
    y = rng.choice((2020, 2021, 2019, 2024, 2100, 1999,
                    gen.rand_year(rng, 1000, 8999)))
    rd = gen.rand_rd(rng, mode, y, bias=0.6)
    if rng.random() < 0.4:
        rd = R.ymd_to_rd(mode, y, *rng.choice(((3, 1), (2, 28), (12, 31),
                                               (1, 31), (3, 31))))
    yy, mm, dd = R.rd_to_ymd(mode, rd)
    H, M, S = rng.randrange(24), rng.randrange(60), rng.randrange(60)
    fmt = "%a %b %d %H:%M:%S %Y"
    text = _dt.datetime(yy, mm, dd, H, M, S).strftime(fmt)
    pt = {"rep": "cal", "date": (yy, mm, dd), "sod": F(H * 3600 + M * 60 + S),
          "off": 0}
    offs = [spell_offset(rng, {"tform": "hms", "kind": "complete"})
            for _ in range(rng.choice((0, 1, 1, 2)))]
    res = apply_offsets(mode, pt, [o[1] for o in offs])
    if not 1000 <= res["date"][0] <= 8999:
        return make_ctime(rng)
    sod = int(res["sod"])
    out = _dt.datetime(res["date"][0], res["date"][1], res["date"][2],
                       sod // 3600, sod % 3600 // 60, sod % 60).strftime(fmt)
    argv = [text] + offset_args(rng, [o[0] for o in offs])
    cls = ["shift/ctime-notation"]
    if any(o[1][0] or o[1][1] for o in offs):
        cls.append("shift/ctime-notation-nominal-offset")
    return {"op": "run", "argv": argv, "env": {}, "local": [0, 0],
            "expect": {"stdout": out + "\n"}, "classes": cls,
            "nontrivial": True}


def expanded_print_cases():
    """print formats that spell the expanded-year digits (+X), given to
    items written with a plain four-digit year and to expanded ones"""
    for argv, out in (
            (["2020-01-01T00Z", "-f", "+XCCYY-MM-DDThhZ"],
             "+002020-01-01T00Z"),
            (["20200101T0630Z", "-f", "+XCCYYDDDThhmmZ"],
             "+002020001T0630Z"),
            (["2020-W01-3T06:30:00+05:30",
              "--print-format=+XCCYY-Www-DThh:mm+hh:mm"],
             "+002020-W01-3T06:30+05:30"),
            (["+012020-01-01T00Z", "--format", "+XCCYY-MM-DDThhZ"],
             "+012020-01-01T00Z"),
            (["2020-01-01T00Z", "--offset=P1D", "-f", "+XCCYY-MM-DDThhZ"],
             "+002020-01-02T00Z"),
            (["ref", "--ref", "1999-12-31T23Z", "-f", "+XCCYYDDDThhZ"],
             "+001999365T23Z"),
            (["R2/2020-01-01T00Z/P1D", "-f", "+XCCYY-MM-DDThhZ"],
             "+002020-01-01T00Z\n+002020-01-02T00Z")):
        yield {"op": "run", "argv": argv, "env": {}, "local": [0, 0],
               "expect": {"stdout": out + "\n"},
               "classes": ["print-format/expanded-year"],
               "nontrivial": True}


def empty_item_cases():
    """an empty (or blank) item in every positional slot is malformed too"""
    good = "2000-01-01T00:00:00Z"
    for g in ("", " "):
        for argv in ([g], [g, good], [good, g], [g, "--offset", "P1D"],
                     [g, "--utc"], [g, "-f", "CCYY"],
                     ["ref", "--ref", g], [g, "--calendar", "360day"]):
            yield {"op": "run", "argv": argv, "env": {}, "local": [0, 0],
                   "expect": {"malformed": True},
                   "classes": ["malformed/exit", "malformed/empty-item"],
                   "nontrivial": True}


def make_malformed(rng):
    good = "2000-01-01T00:00:00Z"
    g = rng.choice(GARBAGE)
    if g == "--":
        g = "garbage"
    v = rng.random()
    if v < 0.3:
        argv = [g]
    elif v < 0.45:
        argv = [g, good]
    elif v < 0.6:
        argv = [good, g]
    elif v < 0.75:
        argv = [good, "--offset", rng.choice(("garbage", "P1X", "1D",
                                               "-", "P-1D", "P1D2Y"))]
    elif v < 0.85:
        argv = [good, good, "--offset2", "nonsense"]
    elif v < 0.89:
        # custom parse formats (library directives and C-library ones)
        fmt, text = rng.choice((("%d %b %Y", "31 Foo 2019"),
                                ("%a %d %b %Y", "Xyz 31 Jan 2019"),
                                ("%d/%m/%Y", "31-12-2019"),
                                ("%Y%m%d", "2019-12-31"),
                                ("%d %b %Y", "garbage"),
                                ("%Y-%j", "2019-400")))
        argv = ["-p", fmt, text] if rng.random() < 0.6 else \
            ["--parse-format=" + fmt, good.replace("T", " "), text]
    elif v < 0.92:
        argv = ["--as-total=H", rng.choice(("garbage", "2000", "PXH"))]
    else:
        argv = ["ref", "--ref", g]
    return {"op": "run", "argv": argv, "env": {}, "local": [0, 0],
            "expect": {"malformed": True}, "classes": ["malformed/exit"],
            "nontrivial": True}


def judge(ctx, case, out, err, code, where="in-process"):
    e = case["expect"]
    argv = case["argv"]
    if e.get("malformed"):
        if code in (None, 0):
            ctx.violation("malformed.accepted", "%s: isodatetime %r exited "
                          "normally with output %r" % (where, argv, out),
                          argv=argv)
            return False
        msg = (str(code) if where == "in-process" and not isinstance(
            code, int) else "") + err
        if not msg.strip() or "Traceback" in err:
            ctx.violation("malformed.message", "%s: isodatetime %r: exit %r "
                          "without a message / with a traceback: %r" % (
                              where, argv, code, err[-300:]), argv=argv)
            return False
        return True
    if code not in (None, 0):
        ctx.violation("run.exit", "%s: isodatetime %r (env %r) exited with "
                      "%r: %s" % (where, argv, case.get("env"), code,
                                  err[-200:]), argv=argv)
        return False
    if "stdout" in e:
        if out != e["stdout"]:
            ctx.violation("run.stdout", "%s: isodatetime %r (env %r, local "
                          "%r) printed %r, expected %r" % (
                              where, argv, case.get("env"),
                              case.get("local"), out, e["stdout"]),
                          argv=argv)
            return False
        return True
    want = F(*e["duration_seconds"])
    text = out.strip()
    if "total_unit" in e:
        unit = {"H": 3600, "M": 60, "S": 1}[e["total_unit"]]
        try:
            got = F(text)
        except (ValueError, ZeroDivisionError):
            got = None
        exp = want / unit
        if got is None or abs(got - exp) > F(1, 10**9) * max(1, abs(exp)):
            ctx.violation("run.total", "%s: isodatetime %r printed %r, "
                          "expected total %s" % (where, argv, out,
                                                 float(exp)), argv=argv)
            return False
        return True
    if e.get("format_fields"):
        neg = text.startswith("-")
        try:
            y, mo, d, h, mi, sec = [F(x.replace(",", ".")) for x in
                                    text.lstrip("-").split(";")]
            got = (d * 86400 + h * 3600 + mi * 60 + sec) * (-1 if neg else 1)
            if y or mo:
                got = None
        except ValueError:
            got = None
        if got is None or got != want:
            ctx.violation("run.duration-format", "%s: isodatetime %r printed "
                          "%r (= %s s); second - first is %s s" % (
                              where, argv, out, got, want), argv=argv)
            return False
        return True
    got = parse_exact_duration(text)
    if got is not None and e.get("tolerance") and \
            abs(got - want) <= F(1, 10 ** 9):
        got = want          # decimal seconds: float noise (tolerance regime)
    if got is None or got != want:
        ctx.violation("run.duration", "%s: isodatetime %r printed %r "
                      "(= %s s); second - first is %s s" % (
                          where, argv, out, got, want), argv=argv)
        return False
    return True


def run_case(ctx, repo, case):
    try:
        out, err, code = call_main(repo, case["argv"], case.get("env"),
                                   tuple(case.get("local", (0, 0))))
    except BaseException as exc:
        if isinstance(exc, (KeyboardInterrupt, core.BudgetExceeded)):
            raise
        ctx.violation("run.traceback", "isodatetime %r (env %r) raised %s: "
                      "%s instead of printing or exiting with a message" % (
                          case["argv"], case.get("env"), type(exc).__name__,
                          exc), argv=case["argv"], exc=type(exc).__name__)
        return
    if judge(ctx, case, out, err, code):
        for c in case.get("classes", ()):
            ctx.cls(c)
    if case.get("nontrivial"):
        ctx.nontrivial((case["argv"], sorted((case.get("env") or {}).items())))


def run_child(ctx, case):
    env = dict(os.environ)
    env.pop("ISODATETIMEREF", None)
    env.pop("ISODATETIMECALENDAR", None)
    env.update(case.get("env") or {})
    env["PYTHONPATH"] = core.REPO
    env["PYTHONDONTWRITEBYTECODE"] = "1"
    loc = case.get("local", (0, 0))
    secs = -(loc[0] * 60 + loc[1]) * 60     # POSIX sign convention
    sign = "-" if secs < 0 else ""
    a = abs(secs)
    env["TZ"] = "XXX%s%d:%02d" % (sign, a // 3600, a % 3600 // 60)
    proc = subprocess.run(
        [sys.executable, "-m", "metomi.isodatetime.main"] + case["argv"],
        env=env, cwd=core.VERIF, stdin=subprocess.DEVNULL,
        stdout=subprocess.PIPE, stderr=subprocess.PIPE, timeout=120)
    ctx.ev("child.run")
    ok = judge(ctx, case, proc.stdout.decode(), proc.stderr.decode(),
               proc.returncode or None, where="child process")
    if ok:
        ctx.cls("child/malformed" if case["expect"].get("malformed")
                else "child/ok")


def workload(ctx, repo):
    rng = ctx.rng
    if ctx.worker == 0:
        for case in rec_edge_cases():
            ctx.case = case
            run_case(ctx, repo, case)
        for case in itertools.chain(diff_zone_cases(), tiny_diff_cases(),
                                    empty_item_cases(),
                                    expanded_print_cases()):
            ctx.case = case
            run_case(ctx, repo, case)
        for case in week_date_fallback_cases():
            ctx.case = case
            run_case(ctx, repo, case)
        for case in ctime_fixed_cases():
            ctx.case = case
            run_case(ctx, repo, case)
    for _ in range(60 if ctx.tier == "quick" else 200):
        for case in make_strftime_pair(rng):
            ctx.case = case
            run_case(ctx, repo, case)
    n = 2800 if ctx.tier == "quick" else 9000
    kept = []
    for k in range(n):
        mode = MODES4[k % 4] if k % 3 == 0 else "gregorian"
        v = k % 20
        if v < 9:
            how = ("option", "env", "both")[(k // 3) % 3] \
                if mode != "gregorian" \
                else rng.choice(("option", "env", "neither", "both", "both"))
            case = make_shift(rng, (mode, how))
        elif v < 11:
            case = (make_print_format(rng, mode), make_print_strftime(rng),
                    make_ctime(rng))[(k // 20) % 3]
        elif v < 14:
            case = make_diff(rng, mode)
        elif v == 14:
            case = make_total(rng)
        elif v < 17:
            case = make_rec(rng, mode)
        elif v == 17:
            case = make_parse_format(rng, mode) if (k // 20) % 2 else \
                make_parse_format_zone(rng, mode)
        else:
            case = make_malformed(rng)
        ctx.case = case
        if k % 233 == 0:
            ctx.sample({"argv": case["argv"], "env": case["env"],
                        "expect": case["expect"]})
        run_case(ctx, repo, case)
        if k % 37 == 0 or (k % 20 >= 18 and k % 7 == 0):
            kept.append(case)
    nchild = 24 if ctx.tier == "quick" else 60
    for case in kept[:nchild]:
        ctx.case = case
        run_child(ctx, case)
    ctx.extra["lenient_fallback_decisions"] = len(ctx.fallback_log)
    ctx.extra["lenient_fallback_examples"] = [
        list(x) for x in ctx.fallback_log[:5]]
