"""C01 - adding an exact duration translates the instant exactly.

Monitors: postconditions on TimePoint.__add__ / __sub__ (Duration branch) and
on TimePoint._tick_over, evaluated on every call any workload causes
(including the nested ones made by Duration.__add__(TimePoint)).
Oracle: closed-form reference instants (rtv.refmodel)."""
from fractions import Fraction as F

from .. import gen
from .. import refmodel as R

RULE = ("cases = (calendar mode, TimePoint constructor kwargs, Duration "
        "kwargs, operation in {p+d, p-d, d+p}); structured sweep over all "
        "month/year/leap-day/week-year boundaries of 12 year types x 3 "
        "representations x 4 modes x 38 boundary durations, plus seeded "
        "random points/durations; a case is non-trivial when the reference "
        "model says the result lies on another calendar day or in another "
        "hour than p; distinct = distinct (mode, op, p-fields, d-fields)")
RUN_REPO_SUITE = True   # thorough tier: repo tests under these monitors
DECIDING = ["add.post", "sub.post"]
MIN_EVALS = {"add.post": 3000, "tick_over.post": 1000}
ASSUMPTIONS = [
    "exact regime (all fields integral, integer carries): instants compared "
    "exactly; otherwise within 1e-6 s (the property's own tolerance), upper "
    "range bounds closed with 1e-9 slack (IEEE divmod)",
    "a 24:00 result is accepted only when the operation was an identity "
    "(result fields equal the operand's)",
]
TOL = F(1, 10**6)
SLACK = F(1, 10**9)

BOUNDARIES = ("day", "month", "year", "leapday", "century", "weekyear")


def crossed(mode, rd_a, rd_b):
    """boundaries between two local day numbers, per the reference"""
    out = []
    if rd_a == rd_b:
        return out
    out.append("day")
    ya, ma, _ = R.rd_to_ymd(mode, rd_a)
    yb, mb, _ = R.rd_to_ymd(mode, rd_b)
    if (ya, ma) != (yb, mb):
        out.append("month")
    if ya != yb:
        out.append("year")
    if ya // 100 != yb // 100:
        out.append("century")
    if R.rd_to_week(mode, rd_a)[0] != R.rd_to_week(mode, rd_b)[0]:
        out.append("weekyear")
    if mode == "gregorian" and abs(rd_a - rd_b) < 3000:
        lo, hi = min(rd_a, rd_b), max(rd_a, rd_b)
        for y in range(min(ya, yb), max(ya, yb) + 1):
            if R.greg_leap(y) and lo < R.ymd_to_rd(mode, y, 2, 29) <= hi:
                out.append("leapday")
                break
    return out


def _snap(repo, p):
    mode = R.canon(repo.CALENDAR.mode)
    if p._truncated or R.tp_rep(p) is None:
        return None
    if not R.tp_valid(mode, p):
        return None
    return {"mode": mode, "inst": R.tp_instant(mode, p), "key": R.tp_key(p),
            "rd": R.tp_rd(mode, p), "sod": R.tp_sod(p),
            "integral": R.tp_is_integral(p), "form": R.tp_form(p)}


def _edge_justified(q, exp_instant):
    """A field printed as exactly its upper bound (second or minute 60.0) is
    what IEEE `divmod(x, 60)` returns for a tiny negative x; it is tolerated
    (R1) only where the exact result lies within 4e-15 below the boundary -
    anything further below has a representable remainder under 60."""
    off = (q._time_zone._hours * 60 + q._time_zone._minutes) * 60
    sod = (exp_instant + off) % 86400
    for val, unit in ((q._second_of_minute, 1), (q._minute_of_hour, 60)):
        if val is not None and val >= 60:
            r = (sod / unit) % 60
            if val > 60 or 60 - r > F(4, 10 ** 15):
                return False
    if _float_24(q):
        # decimal hours: divmod(x, 24) of a tiny negative x is 24.0
        return 24 - sod / 3600 <= F(4, 10 ** 15)
    return True


def _float_24(q):
    return type(q._hour_of_day) is float and q._hour_of_day == 24.0 and \
        q._minute_of_hour is None and q._second_of_minute is None


def _check_result(ctx, repo, tag, snap, d_len, d_integral, d_key, d_units,
                  q, exc):
    mode = snap["mode"]
    if exc is not None:
        ctx.violation(tag + ".raised", "%s raised %r for valid operands %r, "
                      "%r" % (tag, exc, snap["key"], d_key),
                      p=snap["key"], d=d_key)
        return
    stays_int = (snap["integral"] and d_integral and
                 (not d_units[0] or snap["form"] == "hms") and
                 (not d_units[1] or snap["form"] in ("hms", "hm")))
    regime = "exact" if stays_int else "tolerance"
    ctx.cls("regime/%s/%s" % (mode, regime))
    exp = snap["inst"] + d_len
    prob = None
    if not isinstance(q, repo.TimePoint) or q._truncated:
        prob = "result is not a full TimePoint"
    elif R.tp_rep(q) != snap["key"][0]:
        prob = "representation changed to %s" % R.tp_rep(q)
    elif (q._time_zone._hours, q._time_zone._minutes,
          bool(q._time_zone._unknown)) != snap["key"][5:8]:
        prob = "UTC offset changed"
    else:
        identity = R.tp_key(q) == snap["key"]
        slack = F(0) if stays_int else SLACK
        if not R.tp_valid(mode, q, allow_24=identity or (
                not stays_int and _float_24(q) and _edge_justified(q, exp)),
                slack=slack):
            prob = "result has a field outside its legal range"
        else:
            got = R.tp_instant(mode, q)
            if stays_int:
                if got != exp:
                    prob = "instant off by %s s" % (got - exp)
            elif abs(got - exp) > TOL:
                prob = "instant off by %s s (tolerance 1e-6)" % float(
                    got - exp)
            if prob is None and not stays_int:
                s = q._second_of_minute
                m = q._minute_of_hour
                if (s is not None and s >= 60) or (m is not None and m >= 60):
                    ctx.extra["float_edge_observations"] = ctx.extra.get(
                        "float_edge_observations", 0) + 1
                    if not _edge_justified(q, exp):
                        prob = "a field sits on its upper bound (60) " \
                            "although the exact result is not within " \
                            "rounding of it"
    if prob:
        ctx.violation(tag + ".wrong", "%s: %s; p=%r d=%r got=%r expected "
                      "instant=%s mode=%s" % (
                          tag, prob, snap["key"], d_key,
                          R.tp_key(q) if hasattr(q, "_year") else q, exp,
                          mode),
                      p=snap["key"], d=d_key, regime=regime)
        return
    # observation accounting
    local_exp = exp + snap["key"][5] * 3600 + snap["key"][6] * 60
    rd_q = int(local_exp // 86400)
    direction = "fwd" if d_len > 0 else "bwd"
    if d_len != 0:
        rep = snap["key"][0]
        for b in crossed(mode, snap["rd"], rd_q):
            ctx.cls("%s/%s/%s/%s" % (mode, rep, direction, b))
        if rd_q != snap["rd"] or (local_exp % 86400) // 3600 != \
                snap["sod"] // 3600:
            ctx.nontrivial((mode, tag, snap["key"], d_key))


def install(ctx, repo, probes):
    TP, Dur = repo.TimePoint, repo.Duration

    def units(d):
        if d._weeks is not None:
            return (0, 0)
        return (d._seconds, d._minutes)

    def applicable(p, d):
        return (isinstance(d, Dur) and isinstance(p, TP) and
                R.dur_is_exact(d))

    def pre(args, kwargs):
        if len(args) != 2 or not applicable(args[0], args[1]):
            return None
        return _snap(repo, args[0])

    def post_add(snap, args, kwargs, q, exc):
        if snap is None:
            return
        d = args[1]
        ctx.ev("add.post")
        _check_result(ctx, repo, "add", snap, R.dur_len(d),
                      R.dur_is_integral(d), R.dur_key(d), units(d), q, exc)

    def post_sub(snap, args, kwargs, q, exc):
        if snap is None:
            return
        d = args[1]
        ctx.ev("sub.post")
        _check_result(ctx, repo, "sub", snap, -R.dur_len(d),
                      R.dur_is_integral(d), R.dur_key(d), units(d), q, exc)

    probes.wrap(TP, "__add__", post_add, pre)
    probes.wrap(TP, "__sub__", post_sub, pre)

    # _tick_over: normalisation must keep the instant and produce legal
    # fields.  Un-normalised tuples are evaluated linearly.
    def lin_instant(mode, p):
        rep = R.tp_rep(p)
        if rep == "cal":
            if not 1 <= p._month_of_year <= 12:
                return None
            rd = R.ymd_to_rd(mode, p._year, p._month_of_year, 1) + \
                p._day_of_month - 1
        elif rep == "ord":
            rd = R.days_before_year(mode, p._year) + p._day_of_year - 1
        elif rep == "week":
            rd = (R.week_start(mode, p._year) + (p._week_of_year - 1) * 7 +
                  p._day_of_week - 1)
        else:
            return None
        return rd * 86400 + R.tp_sod(p) - R.tp_offset_minutes(p) * 60

    def pre_tick(args, kwargs):
        p = args[0]
        if p._truncated or p._hour_of_day is None or p._year is None:
            return None
        mode = R.canon(repo.CALENDAR.mode)
        inst = lin_instant(mode, p)
        if inst is None:
            return None
        return (mode, inst, R.tp_is_integral(p), R.tp_key(p))

    def post_tick(snap, args, kwargs, res, exc):
        if snap is None:
            return
        ctx.ev("tick_over.post")
        mode, inst, integral, key = snap
        p = args[0]
        if exc is not None:
            ctx.violation("tick_over.raised", "_tick_over raised %r on %r" % (
                exc, key), before=key)
            return
        slack = F(0) if integral else SLACK
        if not R.tp_valid(mode, p, allow_24=(
                not integral and _float_24(p) and _edge_justified(p, inst)),
                slack=slack):
            ctx.violation("tick_over.invalid", "_tick_over left illegal "
                          "fields %r from %r (mode %s)" % (
                              R.tp_key(p), key, mode), before=key,
                          after=R.tp_key(p))
            return
        got = R.tp_instant(mode, p)
        if not integral and not _edge_justified(p, inst):
            ctx.violation("tick_over.invalid", "_tick_over left a field on "
                          "its upper bound (60) although the exact value is "
                          "not within rounding of it: %r from %r" % (
                              R.tp_key(p), key), before=key,
                          after=R.tp_key(p))
            return
        if (integral and got != inst) or abs(got - inst) > TOL:
            ctx.violation("tick_over.instant", "_tick_over moved the instant "
                          "by %s s: %r -> %r (mode %s)" % (
                              float(got - inst), key, R.tp_key(p), mode),
                          before=key, after=R.tp_key(p))

    probes.wrap(TP, "_tick_over", post_tick, pre_tick)

    for mode in R.MODES:
        for regime in ("exact", "tolerance"):
            ctx.target("regime/%s/%s" % (mode, regime))
        for rep in gen.REPS:
            for direction in ("fwd", "bwd"):
                for b in BOUNDARIES:
                    if b == "leapday" and mode != "gregorian":
                        continue
                    ctx.target("%s/%s/%s/%s" % (mode, rep, direction, b))


def run_case(ctx, repo, case):
    repo.set_mode(case["mode"], case)
    try:
        p = repo.tp(case["p"])
        d = repo.dur(case["d"])
        if "weeks" in case["d"]:
            # an unrelated sum with an equal week duration, somewhere else in
            # the program, beforehand
            repo.dur(case["d"]) + repo.Duration(days=3, hours=5)
            repo.Duration(hours=1) - repo.dur(case["d"])
            ctx.ev("bystander-week-sum")
        if case.get("zero") == "w-w":
            d = repo.Duration(weeks=2) - repo.Duration(weeks=2)
        elif case.get("zero") == "mul0":
            d = repo.Duration(days=3, hours=5) * 0
        op = case["op"]
        if op == "add":
            p + d
        elif op == "sub":
            p - d
        elif op == "radd":
            d + p
    finally:
        repo.set_mode("gregorian")


SWEEP_YEARS = {
    "gregorian": [1999, 2000, 2004, 1900, 2100, 0, -1, -400, 9999, 10000,
                  2015, 2020, 2003, 1],
    "360day": [2000, 1999, 0, -1, 2004, 10000],
    "365day": [2000, 1999, 0, -1, 2004, 10000],
    "366day": [2000, 1999, 0, -1, 2004, 10000],
}
SWEEP_TIMES = [
    {"hour_of_day": 0, "minute_of_hour": 0, "second_of_minute": 0},
    {"hour_of_day": 23, "minute_of_hour": 59, "second_of_minute": 59},
    {"hour_of_day": 12, "minute_of_hour": 30, "second_of_minute": 30},
    {"hour_of_day": 24},
    {"hour_of_day": 23, "minute_of_hour": 59, "minute_of_hour_decimal": 0.5},
    {"hour_of_day": 23, "hour_of_day_decimal": 0.75},
    {"hour_of_day": 0, "minute_of_hour": 0, "second_of_minute": 0,
     "second_of_minute_decimal": 0.5},
    {"hour_of_day": 5, "minute_of_hour": 7, "minute_of_hour_decimal": 0.0},
]
SWEEP_OFFSETS = [(0, 0), (5, 30), (0, -30), (-99, -59), (13, 45)]
SWEEP_DURS = gen.EXACT_DUR_POOL + [
    {"days": 36524}, {"days": -36525}, {"days": 146097}, {"days": -146097}]


ZERO_DURS = [({}, None), ({"days": 0}, None), ({"weeks": 0}, None),
             ({"hours": 0, "seconds": 0.0}, None), ({}, "w-w"),
             ({}, "mul0"), ({"days": 1, "hours": -24}, None)]
ZERO_TIMES = [{"hour_of_day": 24},
              {"hour_of_day": 24, "minute_of_hour": 0},
              {"hour_of_day": 24, "minute_of_hour": 0, "second_of_minute": 0},
              {"hour_of_day": 23, "minute_of_hour": 59,
               "second_of_minute": 59},
              {"hour_of_day": 0}]


def workload(ctx, repo):
    rng = ctx.rng
    stride = 3 if ctx.tier == "quick" else 1
    i = 0
    for mode in R.MODES:
        for y in SWEEP_YEARS[mode]:
            for rd in gen.boundary_rds(mode, y):
                for rep in gen.REPS:
                    for di, dkw in enumerate(SWEEP_DURS):
                        i += 1
                        if (i + ctx.seed) % stride or not ctx.mine(i // stride):
                            continue
                        if abs(dkw.get("days", 0)) > 30000 and i % 7:
                            continue
                        kw = gen.date_kwargs(mode, rep, rd)
                        kw.update(SWEEP_TIMES[(i // 3) % len(SWEEP_TIMES)])
                        kw.update(gen.zone_kwargs(
                            SWEEP_OFFSETS[(i // 5) % len(SWEEP_OFFSETS)]))
                        case = {"op": ("add", "sub", "radd")[i % 3],
                                "mode": mode, "p": kw, "d": dkw}
                        ctx.case = case
                        ctx.ev("cases.sweep")
                        run_case(ctx, repo, case)
    # durations of no length at all, in several spellings, on points at the
    # ends of days, months and years (24:00 spellings included): nothing may
    # move, and nothing may be left half-carried
    i = 0
    for mode in R.MODES:
        for y in (2001, 2004):
            for rd in gen.boundary_rds(mode, y):
                for rep in gen.REPS:
                    for zi, (dkw, zero) in enumerate(ZERO_DURS):
                        i += 1
                        if not ctx.mine(i):
                            continue
                        kw = gen.date_kwargs(mode, rep, rd)
                        kw.update(ZERO_TIMES[(i // 2) % len(ZERO_TIMES)])
                        kw.update(gen.zone_kwargs(
                            SWEEP_OFFSETS[(i // 5) % len(SWEEP_OFFSETS)]))
                        case = {"op": ("add", "sub", "radd")[i % 3],
                                "mode": mode, "p": kw, "d": dkw}
                        if zero:
                            case["zero"] = zero
                        ctx.case = case
                        ctx.ev("cases.zero-length")
                        run_case(ctx, repo, case)
    # whole-day shifts that land exactly on (or a day beside) the first day
    # of the year or of the month - a day field that is 0 on the way - from
    # points at any time of day, 24:00 spellings included
    i = 0
    for mode in R.MODES:
        for y in (2001, 2004):
            y0 = R.days_before_year(mode, y)
            L = R.year_len(mode, y)
            for doy in (1, 2, 7, 10, 14, 31, 32, 59, 60, 61, L - 1, L):
                rd = y0 + doy - 1
                dom = R.rd_to_ymd(mode, rd)[2]
                durs = [{"days": -n} for n in sorted(
                    {doy - 1, doy, doy + 1, dom - 1, dom, dom + 1,
                     doy + L, L - doy, L - doy + 1})]
                durs += [{"days": L - doy + 1}, {"days": L - doy}]
                if doy % 7 == 0:
                    durs.append({"weeks": -(doy // 7)})
                for rep in gen.REPS:
                    for dkw in durs:
                        for tkw in ZERO_TIMES:
                            i += 1
                            if not ctx.mine(i):
                                continue
                            kw = gen.date_kwargs(mode, rep, rd)
                            kw.update(tkw)
                            kw.update(gen.zone_kwargs(
                                SWEEP_OFFSETS[(i // 7) % len(SWEEP_OFFSETS)]))
                            case = {"op": ("add", "radd", "sub")[i % 3],
                                    "mode": mode, "p": kw, "d": dkw}
                            if case["op"] == "sub":
                                case["d"] = {k: -v for k, v in dkw.items()}
                            ctx.case = case
                            ctx.ev("cases.land-on-first-day")
                            run_case(ctx, repo, case)
    # unit counts given as True (an int that is not the object 1)
    if ctx.worker == 0:
        for dkw in ({"hours": True}, {"days": True}, {"seconds": True},
                    {"minutes": True, "seconds": 30}):
            for op in ("add", "sub", "radd"):
                kw = gen.rand_tp(rng, "gregorian", form="hms", integral=True)
                case = {"op": op, "mode": "gregorian", "p": kw, "d": dkw}
                ctx.case = case
                ctx.ev("cases.bool-valued-unit")
                run_case(ctx, repo, case)
    # decimal fractions that cancel: in decimal the result falls exactly on
    # a whole minute (or second), in binary a few ulp beside it - on either
    # side of the carry
    for k in range(3000 if ctx.tier == "quick" else 9000):
        if not ctx.mine(k):
            continue
        digits = rng.choice((1, 2, 2, 3))
        a = rng.randrange(1, 60 * 10 ** digits) / 10.0 ** digits
        whole = rng.choice((0, 60, 120, 3600, 86400, 59, 1))
        sign = rng.choice((-1, -1, 1))
        kw = gen.rand_tp(rng, "gregorian", integral=True, form="hms")
        if kw.get("hour_of_day") == 24 or "second_of_minute" not in kw:
            continue
        if sign < 0:
            # p has the fraction, d takes it away (and whole units more)
            kw["second_of_minute"] = int(a)
            kw["second_of_minute_decimal"] = a - int(a)
            dkw = {"seconds": -(whole + a)}
        else:
            b = 60 - a
            kw["second_of_minute"] = int(a)
            kw["second_of_minute_decimal"] = a - int(a)
            dkw = {"seconds": whole + b}
        case = {"op": rng.choice(("add", "radd")) if sign > 0 or
                rng.random() < 0.5 else "sub", "mode": "gregorian",
                "p": kw, "d": dkw}
        if case["op"] == "sub":
            case["d"] = {"seconds": -dkw["seconds"]}
        ctx.case = case
        ctx.ev("cases.decimal-cancel")
        run_case(ctx, repo, case)
    n = 9000 if ctx.tier == "quick" else 40000
    for k in range(n):
        mode = rng.choice(R.MODES) if rng.random() < 0.6 else "gregorian"
        integral = rng.random() < 0.6
        p = gen.rand_tp(rng, mode, integral=integral,
                        year=gen.huge_year(rng) if k % 40 == 7 else None)
        d = gen.rand_exact_dur(rng, integral=integral, big=(k % 10 == 0))
        if k % 60 == 13:
            # a time part of years' worth of hours or minutes beside a
            # decimal fraction of a second, on a point that stores whole
            # hours and minutes (a decimal-hour field of 1e7 cannot hold a
            # microsecond)
            p = gen.rand_tp(rng, mode, form="hms", integral=True)
            d = rng.choice(({"hours": 10 ** 7, "seconds": 0.3},
                            {"minutes": -3 * 10 ** 8, "seconds": 0.7},
                            {"hours": -4000000, "minutes": 7,
                             "seconds": 12.1},
                            {"hours": 3 * 10 ** 6, "seconds": 59.9}))
        case = {"op": rng.choice(("add", "sub", "radd")), "mode": mode,
                "p": p, "d": d}
        ctx.case = case
        ctx.ev("cases.random")
        if k % 997 == 0:
            ctx.sample(case)
        run_case(ctx, repo, case)
        if k % 5 == 0:
            # history: the same duration applied to the same instant written
            # in another representation / offset
            tw = gen.twin_of(rng, mode, p)
            if tw is not None:
                case = dict(case, p=tw)
                ctx.case = case
                ctx.ev("cases.twin")
                run_case(ctx, repo, case)
