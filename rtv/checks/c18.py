"""C18 - Unix time and the system's local UTC offset are converted exactly.

Monitors: reference postconditions on
data.get_timepoint_from_seconds_since_unix_epoch, the
TimePoint.seconds_since_unix_epoch property, timezone.get_local_time_zone,
timezone.get_local_time_zone_format, TimePoint.to_local_time_zone and the
parser's default zone.  The system zone is presented through a
Mock(spec=time) bound to timezone.time and through the real TZ variable +
time.tzset()."""
import decimal
import os
import time as _time
from fractions import Fraction as F
from unittest import mock

from .. import gen
from .. import refmodel as R

RULE = ("cases = (a) second counts n (integers over +-1e11 with boundary "
        "values, non-negative fractions) for the epoch constructor in UTC "
        "and local mode; (b) TimePoints in all representations/offsets (incl. "
        "24:00) for seconds_since_unix_epoch; (c) system zone "
        "configurations: standard offset any whole minute within +-24 h x "
        "daylight flag x is-dst x alternative offsets, via a mocked time "
        "module, plus POSIX TZ strings through tzset(); non-trivial = n != 0 "
        "/ a non-UTC point / a non-zero offset; distinct by the case tuple")
RUN_REPO_SUITE = True   # thorough tier: repo tests under these monitors
DECIDING = ["from_epoch.post", "to_epoch.post", "local_zone.post",
            "local_format.post", "local_carry"]
MIN_EVALS = {"from_epoch.post": 1500, "to_epoch.post": 2500,
             "local_zone.post": 2500, "local_format.post": 1500,
             "local_carry": 150}
EXHAUSTIVE = {"thorough": "every whole-minute standard offset within +-24 h "
                          "(2881 values) x {daylight flag} x {is-dst 0,1,-1} "
                          "with alternative offsets std+60, std+30 and "
                          "boundary values"}
MODE = "gregorian"
TOL = F(1, 10**6)


def effective_offset(tm):
    off = -tm.timezone
    if tm.localtime().tm_isdst == 1 and tm.daylight:
        off = -tm.altzone
    return off


def _fine_dyadic(p):
    for v in (p._hour_of_day, p._minute_of_hour, p._second_of_minute):
        if v is not None:
            den = F(v).denominator
            if den > 4096 or den & (den - 1):
                return False
    return True


def install(ctx, repo, probes):
    D, TZM = repo.data, repo.timezone
    def now():
        m = R.canon(repo.CALENDAR.mode)
        return m, R.unix_epoch_rd(m) * 86400

    def post_local(snap, args, kwargs, res, exc):
        ctx.ev("local_zone.post")
        off = effective_offset(TZM.time)
        if off % 60:
            return
        want = R.split_offset_seconds(off)
        if exc is not None or tuple(res) != want:
            ctx.violation("local_zone", "get_local_time_zone() = %r (exc %r) "
                          "for a system offset of %d s; expected %r" % (
                              res, exc, off, want), offset=off)
        else:
            ctx.cls("local/%s%s" % ("neg" if off < 0 else
                                    ("pos" if off > 0 else "zero"),
                                    "/zero-hour" if abs(off) < 3600 and off
                                    else ""))
    probes.wrap(TZM, "get_local_time_zone", post_local)

    def post_format(snap, args, kwargs, res, exc):
        ctx.ev("local_format.post")
        off = effective_offset(TZM.time)
        if off % 60:
            return
        fm = args[0] if args else kwargs.get("tz_fmt_mode", "normal")
        want = R.offset_format(off, fm)
        if exc is not None or res != want:
            ctx.violation("local_format", "get_local_time_zone_format(%r) = "
                          "%r (exc %r) for offset %d s; expected %r" % (
                              fm, res, exc, off, want), offset=off, fmt=fm)
        else:
            ctx.cls("format/" + str(fm))
    probes.wrap(TZM, "get_local_time_zone_format", post_format)

    def post_from(snap, args, kwargs, p, exc):
        n = args[0]
        utc = args[1] if len(args) > 1 else kwargs.get("utc", False)
        if isinstance(n, str):
            try:
                n = float(n.replace(",", "."))
            except ValueError:
                return
        ctx.ev("from_epoch.post")
        if exc is not None:
            ctx.violation("from_epoch.raised", "from epoch(%r, utc=%r) raised "
                          "%r" % (n, utc, exc), n=n)
            return
        MODE, epoch = now()
        want = epoch + F(n)
        got = R.tp_instant(MODE, p)
        exact = F(n).denominator == 1
        off = 0 if utc else effective_offset(TZM.time) // 60
        prob = None
        if not R.tp_valid(MODE, p, allow_24=False,
                          slack=F(0) if exact else F(1, 10**9)):
            prob = "invalid TimePoint"
        elif (exact and got != want) or abs(got - want) > TOL:
            prob = "instant off by %s s" % float(got - want)
        elif R.tp_offset_minutes(p) != off:
            prob = "offset %d min, expected %d" % (R.tp_offset_minutes(p),
                                                   off)
        if prob:
            ctx.violation("from_epoch.wrong", "get_timepoint_from_seconds_"
                          "since_unix_epoch(%r, utc=%r) = %r: %s" % (
                              n, utc, R.tp_key(p), prob), n=n)
        else:
            ctx.cls("from_epoch/%s/%s" % ("utc" if utc else "local",
                                          "neg" if n < 0 else "nonneg"))
    probes.wrap(D, "get_timepoint_from_seconds_since_unix_epoch", post_from)

    TP = repo.TimePoint
    orig_prop = TP.__dict__["seconds_since_unix_epoch"]

    def monitored(self):
        res = exc = None
        try:
            res = orig_prop.fget(self)
        except Exception as e:
            exc = e
        MODE, epoch = now()
        if not ctx.in_oracle and not self._truncated and \
                R.tp_valid(MODE, self):
            ctx.in_oracle += 1
            try:
                ctx.ev("to_epoch.post")
                true = R.tp_instant(MODE, self) - epoch
                key = R.tp_key(self)
                if exc is not None:
                    ctx.violation("to_epoch.raised", "seconds_since_unix_"
                                  "epoch of %r raised %r" % (key, exc))
                else:
                    hform_minutes = (key[3] is None and key[4] is None
                                     and key[6] % 60)
                    if true.denominator == 1 and not hform_minutes:
                        ok = res == str(int(true))
                    elif _fine_dyadic(self) and not hform_minutes:
                        # every field is a small binary fraction: the
                        # library's float arithmetic is exact, so the whole
                        # number of seconds is exact too (the fraction is
                        # dropped; either direction for negative counts)
                        ok = res in (str(int(true // 1)),
                                     str(-int(-true // 1)) if true < 0
                                     else str(int(true // 1)))
                        if ok:
                            ctx.cls("to_epoch/binary-fraction")
                    else:
                        # tolerance regime (fractional fields, or a decimal-
                        # hour point re-zoned by minutes): a neighbouring
                        # whole second is accepted
                        ok = res in (str(int(true // 1) - 1),
                                     str(int(true // 1)),
                                     str(int(true // 1) + 1))
                    if not ok:
                        ctx.violation("to_epoch.wrong", "seconds_since_unix_"
                                      "epoch of %r = %r, instant is %s s "
                                      "after the epoch" % (key, res,
                                                           float(true)))
                    else:
                        ctx.cls("to_epoch/" + key[0])
                        if true < 0:
                            ctx.cls("to_epoch/before-1970")
            finally:
                ctx.in_oracle -= 1
        if exc is not None:
            raise exc
        return res
    probes.set(TP, "seconds_since_unix_epoch", property(monitored))
    for m in R.MODES:
        ctx.target("mode/" + m)
    ctx.target("oper/utc", "oper/local", "props/fractional", "props/whole",
               "zone-minute-keyword-only")
    for m in R.MODES:
        ctx.target("now/" + m)
    ctx.target("to_epoch/binary-fraction", "local/neg", "local/pos", "local/zero", "local/neg/zero-hour",
               "local/pos/zero-hour", "format/normal", "format/reduced",
               "format/extended", "from_epoch/utc/neg",
               "from_epoch/utc/nonneg", "from_epoch/local/neg",
               "from_epoch/local/nonneg", "to_epoch/cal", "to_epoch/ord",
               "to_epoch/week", "to_epoch/before-1970", "real-tz",
               "carry/to_local", "carry/parser", "strptime-epoch")


def make_mock(std, alt, daylight, isdst):
    m = mock.Mock(spec=_time)
    m.timezone = -std
    m.altzone = -alt
    m.daylight = daylight
    m.localtime.return_value = mock.Mock(tm_isdst=isdst)
    return m


def run_case(ctx, repo, case):
    MODE = case.get("mode", "gregorian")
    repo.set_mode(MODE, case)
    try:
        _run_case(ctx, repo, case, MODE)
    finally:
        repo.set_mode("gregorian")


def _run_case(ctx, repo, case, MODE):
    op = case["op"]
    TZM = repo.timezone
    if op == "zone":
        m = make_mock(case["std"], case["alt"], case["daylight"],
                      case["isdst"])
        with mock.patch.object(TZM, "time", m):
            TZM.get_local_time_zone()
            for fm in ("normal", "reduced", "extended"):
                TZM.get_local_time_zone_format(fm)
                # the same mode name as a string built at run time (equal,
                # but not the interned constant)
                TZM.get_local_time_zone_format("".join(list(fm)))
                TZM.get_local_time_zone_format(tz_fmt_mode=fm.upper().lower())
            TZM.get_local_time_zone_format()
            if case.get("carry"):
                ctx.ev("local_carry")
                off = effective_offset(m) // 60
                p = repo.tp(case["p"])
                try:
                    q = p.to_local_time_zone()
                except Exception as exc:
                    ctx.violation("carry.to_local", "to_local_time_zone of "
                                  "%r under system offset %d min raised %r"
                                  % (R.tp_key(p), off, exc))
                    q = None
                if q is None:
                    pass
                elif R.tp_offset_minutes(q) != off or R.tp_instant(MODE, q) \
                        != R.tp_instant(MODE, p):
                    ctx.violation("carry.to_local", "to_local_time_zone of "
                                  "%r under system offset %d min gave %r" % (
                                      R.tp_key(p), off, R.tp_key(q)))
                else:
                    ctx.cls("carry/to_local")
                try:
                    r = repo.parsers.TimePointParser().parse(
                        "2001-02-03T04:05")
                except Exception as exc:
                    ctx.violation("carry.parser", "parsing with the local "
                                  "default zone (%d min) raised %r" % (
                                      off, exc))
                    r = None
                if r is None:
                    pass
                elif R.tp_offset_minutes(r) != off:
                    ctx.violation("carry.parser", "parser default zone %d "
                                  "min under system offset %d min" % (
                                      R.tp_offset_minutes(r), off))
                else:
                    ctx.cls("carry/parser")
                try:
                    repo.data.get_timepoint_from_seconds_since_unix_epoch(
                        case.get("n", 0))
                except Exception:
                    pass        # reported by the monitor
        if effective_offset(m):
            ctx.nontrivial(("zone", case["std"], case["alt"],
                            case["daylight"], case["isdst"]))
    elif op == "realtz":
        old = os.environ.get("TZ")
        os.environ["TZ"] = case["tz"]
        _time.tzset()
        try:
            got = TZM.get_local_time_zone()
            TZM.get_local_time_zone_format("extended")
            ctx.ev("real-tz.check")
            if case.get("expect") is not None and \
                    tuple(got) != tuple(case["expect"]):
                ctx.violation("realtz", "TZ=%s gives %r, expected %r" % (
                    case["tz"], got, case["expect"]))
            else:
                ctx.cls("real-tz")
            repo.data.get_timepoint_from_seconds_since_unix_epoch(12345)
        finally:
            if old is None:
                os.environ.pop("TZ", None)
            else:
                os.environ["TZ"] = old
            _time.tzset()
        ctx.nontrivial(("realtz", case["tz"]))
    elif op == "from":
        m = make_mock(case.get("std", 0), 0, 0, 0)
        with mock.patch.object(TZM, "time", m):
            n = case["n"]
            if case.get("ntype") == "fraction":
                n = F(*n)
            elif case.get("ntype") == "decimal":
                n = decimal.Decimal(n[0]) / decimal.Decimal(n[1])
            elif case.get("ntype") == "str":
                n = str(F(*n).numerator) if n[1] == 1 else \
                    repr(float(F(*n)))
            if case.get("ntype"):
                ctx.cls("from_epoch/count-type/" + case["ntype"])
            repo.data.get_timepoint_from_seconds_since_unix_epoch(
                n, utc=case["utc"])
            if case.get("ntype"):
                ctx.nontrivial(("from-typed", case["ntype"],
                                tuple(case["n"]), case["utc"]))
                return
            if case.get("via_strptime") is not None and \
                    isinstance(case["n"], int):
                # the same count read as text by strptime("%s"), whatever
                # default zone the parser was given
                ctx.ev("strptime_epoch")
                kw = {}
                if case["via_strptime"] != "local":
                    kw["assumed_time_zone"] = tuple(case["via_strptime"])
                try:
                    q = repo.parsers.TimePointParser(**kw).strptime(
                        str(case["n"]), "%s")
                    want = R.unix_epoch_rd(MODE) * 86400 + case["n"]
                    if R.tp_instant(MODE, q) != want:
                        ctx.violation(
                            "strptime_epoch", "strptime(%r, '%%s') with "
                            "parser zone %r under system offset %d s gives "
                            "%r, %s s from the epoch + n" % (
                                str(case["n"]), case["via_strptime"],
                                case.get("std", 0), R.tp_key(q),
                                float(R.tp_instant(MODE, q) - want)))
                    else:
                        ctx.cls("strptime-epoch")
                except Exception as exc:
                    ctx.violation("strptime_epoch", "strptime(%r, '%%s') "
                                  "raised %r" % (str(case["n"]), exc))
            # the constructor-properties form of the same translation
            ctx.ev("props.check")
            try:
                props = repo.data.\
                    get_timepoint_properties_from_seconds_since_unix_epoch(
                        case["n"])
                # (read as fields: with a fractional count the seconds are
                # one decimal number, which the constructor does not take)
                offm = props["time_zone_hour"] * 60 + \
                    props["time_zone_minute"]
                q = (R.ymd_to_rd(MODE, props["year"], props["month_of_year"],
                                 props["day_of_month"]) * 86400 +
                     F(props["hour_of_day"]) * 3600 +
                     F(props["minute_of_hour"]) * 60 +
                     F(props["second_of_minute"]) - offm * 60, offm)
            except Exception as exc:
                q = exc
            want = R.unix_epoch_rd(MODE) * 86400 + F(case["n"])
            if isinstance(q, Exception) or abs(q[0] - want) > TOL or \
                    q[1] != case.get("std", 0) // 60:
                ctx.violation("props.wrong", "the properties for %r s "
                              "(system offset %d s, mode %s) denote %r" % (
                                  case["n"], case.get("std", 0), MODE,
                                  q if isinstance(q, Exception)
                                  else (float(q[0] - want), q[1])))
            else:
                ctx.cls("props/%s" % (
                    "fractional" if F(case["n"]).denominator != 1
                    else "whole"))
            # the same count as "now" (the clock returns n) ...
            if case["n"] >= 0:
                ctx.ev("now.check")
                with mock.patch("time.time", return_value=case["n"]):
                    try:
                        q = repo.data.get_timepoint_for_now(utc=case["utc"])
                    except Exception as exc:
                        q = exc
                want = R.unix_epoch_rd(MODE) * 86400 + F(case["n"])
                off = 0 if case["utc"] else case.get("std", 0) // 60
                if isinstance(q, Exception) or \
                        abs(R.tp_instant(MODE, q) - want) > TOL or \
                        R.tp_offset_minutes(q) != off:
                    ctx.violation("now.wrong", "get_timepoint_for_now(utc=%r)"
                                  " with the clock at %r s (system offset %d "
                                  "s, mode %s) gives %r" % (
                                      case["utc"], case["n"],
                                      case.get("std", 0), MODE,
                                      q if isinstance(q, Exception)
                                      else R.tp_key(q)))
                else:
                    ctx.cls("now/%s" % MODE)
            # ... and through DateTimeOperator with a %s parse format, in
            # UTC mode or not
            if isinstance(case["n"], int):
                ctx.ev("oper.check")
                try:
                    oper = repo.datetimeoper.DateTimeOperator(
                        parse_format="%s", utc_mode=case["utc"],
                        calendar_mode=MODE)
                    q = oper.date_parse(str(case["n"]))[0]
                except Exception as exc:
                    q = exc
                want = R.unix_epoch_rd(MODE) * 86400 + case["n"]
                off = 0 if case["utc"] else case.get("std", 0) // 60
                if isinstance(q, Exception) or \
                        R.tp_instant(MODE, q) != want or \
                        R.tp_offset_minutes(q) != off:
                    ctx.violation("oper.wrong", "DateTimeOperator("
                                  "parse_format='%%s', utc_mode=%r)."
                                  "date_parse(%r) under system offset %d s "
                                  "gives %r" % (
                                      case["utc"], str(case["n"]),
                                      case.get("std", 0),
                                      q if isinstance(q, Exception)
                                      else R.tp_key(q)))
                else:
                    ctx.cls("oper/%s" % ("utc" if case["utc"] else "local"))
        if case["n"]:
            ctx.nontrivial(("from", case["n"], case["utc"],
                            case.get("std", 0)))
    elif op == "to":
        p = repo.tp(case["p"])
        # the offset the keywords spell (an absent part is zero) is the
        # offset the point has
        kw = case["p"]
        want_off = kw.get("time_zone_hour", 0) * 60 + \
            kw.get("time_zone_minute", 0)
        if ("time_zone_hour" in kw or "time_zone_minute" in kw) and \
                R.tp_offset_minutes(p) != want_off:
            ctx.violation("to_epoch.zone", "TimePoint(**%r) has offset %d "
                          "min, the keywords spell %d" % (
                              kw, R.tp_offset_minutes(p), want_off))
        if "time_zone_hour" not in kw and "time_zone_minute" in kw:
            ctx.cls("zone-minute-keyword-only")
        p.seconds_since_unix_epoch
        ctx.nontrivial(("to", R.tp_key(p)))


N_POOL = [0, 1, -1, 59, 60, 86399, 86400, -86400, -86401, 951782400,
          951868800, 2**31 - 1, 2**31, -2**31, 10**9, -10**9, 4102444800,
          -2208988800, 1234567890, 253402300799, -62135596800, -62167219200]


def workload(ctx, repo):
    rng = ctx.rng
    # (c) zone configurations
    stds = [60 * m for m in range(-1440, 1441)]
    if ctx.tier == "quick":
        stds = [stds[(i * 37 + ctx.seed * 11) % len(stds)]
                for i in range(220)] + [0, 60, -60, 1800, -1800, 3600, -3600,
                                        -12600, 20700, 49500, -8100, 86400,
                                        -86400, 45900]
    k = 0
    for std in stds:
        for daylight in (0, 1):
            for isdst in (0, 1, -1):
                k += 1
                if not ctx.mine(k):
                    continue
                alt = std + rng.choice((3600, 1800, 3600, -3600, 0, 600))
                alt = max(-86400, min(86400, alt))
                case = {"op": "zone", "std": std, "alt": alt,
                        "daylight": daylight, "isdst": isdst}
                if k % 7 == 0:
                    case["carry"] = True
                    case["p"] = gen.rand_tp(rng, MODE, form="hms",
                                            year=gen.rand_year(rng, 1, 9998))
                    case["n"] = rng.choice(N_POOL[:12])
                ctx.case = case
                if k % 997 == 0:
                    ctx.sample(case)
                run_case(ctx, repo, case)
    # deterministic: standard/daylight pairs with a zero or opposite-sign
    # daylight offset, every flag combination
    for std, alt in ((-3600, 0), (3600, 0), (-1800, 0), (1800, 0), (0, 3600),
                     (0, -1800), (-1800, 1800), (1800, -1800), (0, 0),
                     (45900, 49500), (-12600, -9000), (-600, 3000),
                     (-86400, -82800), (86400, 82800), (-60, 0), (60, -60)):
        for daylight in (0, 1):
            for isdst in (0, 1, -1):
                if ctx.worker != 0:
                    continue
                case = {"op": "zone", "std": std, "alt": alt,
                        "daylight": daylight, "isdst": isdst, "carry": True,
                        "p": gen.rand_tp(rng, MODE, form="hms",
                                         year=gen.rand_year(rng, 1, 9998)),
                        "n": rng.choice(N_POOL[:12])}
                ctx.case = case
                run_case(ctx, repo, case)
    if ctx.tier == "thorough":
        ctx.extra["std_offsets_enumerated"] = len(
            [s for i, s in enumerate(stds)])
    for tz, expect in (("AAA-05:45", (5, 45)), ("BBB3:30", (-3, -30)),
                       ("CCC0:30", (0, -30)), ("UTC0", (0, 0)),
                       ("DDD-13:45", (13, 45)), ("EEE-00:30", (0, 30)),
                       ("AAA3:30BBB,M3.2.0,M11.1.0", None),
                       ("NZST-12NZDT,M9.5.0,M4.1.0/3", None)):
        if ctx.worker == 0:
            case = {"op": "realtz", "tz": tz,
                    "expect": list(expect) if expect else None}
            ctx.case = case
            run_case(ctx, repo, case)
    # (a) epoch constructor
    n = 2500 if ctx.tier == "quick" else 8000
    for i in range(n):
        v = rng.random()
        if i < len(N_POOL) * 2:
            val = N_POOL[i % len(N_POOL)]
        elif v < 0.6:
            val = rng.randint(-2 * 10**9, 4 * 10**9)
        elif v < 0.7:
            val = rng.randint(-10**11, 10**11)
        elif v < 0.85:
            val = rng.choice(N_POOL) + rng.randint(-2, 2)
        else:
            val = rng.randint(0, 4 * 10**9) + rng.choice(
                (0.5, 0.25, 0.999999, 0.000001, rng.randrange(10**6) / 10**6))
        if i % 11 == 3 and isinstance(val, (int, float)) and val >= 0:
            # the same count as a Fraction / Decimal / text: a whole number
            # plus a binary fraction, exact in every type
            num = int(val) * 8 + (i // 11) % 8
            tcase = {"op": "from", "n": [num, 8], "utc": i % 2 == 0,
                     "ntype": ("fraction", "decimal", "str")[(i // 11) % 3]}
            ctx.case = tcase
            ctx.ev("cases.count-types")
            run_case(ctx, repo, tcase)
        case = {"op": "from", "n": val, "utc": i % 2 == 0,
                "std": 0 if i % 4 == 0 else 60 * rng.randint(-1440, 1440),
                "mode": R.MODES[i % 4] if i % 3 == 0 else "gregorian"}
        ctx.cls("mode/" + case["mode"])
        if i % 4 == 1:
            case["via_strptime"] = rng.choice(
                ("local", [0, 0], list(gen.rand_offset(rng, wide=False))))
            case["std"] = rng.choice((0, 0, case["std"]))
        ctx.case = case
        if i % 499 == 0:
            ctx.sample(case)
        run_case(ctx, repo, case)
    # (b) seconds_since_unix_epoch of any point: first the years either side
    # of the epoch (leap and common), at their ends and around the leap day,
    # in offsets of both signs and every representation
    if ctx.worker == 0:
        for mode in R.MODES:
            for y in range(1964, 1977):
                y0 = R.days_before_year(mode, y)
                L = R.year_len(mode, y)
                for rd in (y0, y0 + 58, y0 + 59, y0 + L - 1):
                    for off in ((0, 0), (0, -30), (-5, 0), (-12, 0),
                                (0, 30), (5, 30), (14, 0)):
                        rep = gen.REPS[(rd + off[0]) % 3]
                        kw = gen.date_kwargs(mode, rep, rd)
                        kw.update({"hour_of_day": (0, 12, 23)[rd % 3],
                                   "minute_of_hour": 15,
                                   "second_of_minute": 7})
                        kw.update(gen.zone_kwargs(off))
                        case = {"op": "to", "p": kw, "mode": mode}
                        ctx.case = case
                        ctx.ev("cases.around-the-epoch")
                        run_case(ctx, repo, case)
    n = 3000 if ctx.tier == "quick" else 12000
    for i in range(n):
        y = rng.choice((1969, 1970, 1971, 2038, 1, 9999, 0, -1, 2000,
                        gen.rand_year(rng, -3000, 12000)))
        mode = R.MODES[i % 4] if i % 3 == 0 else "gregorian"
        kw = gen.rand_tp(rng, mode, year=y, integral=(i % 5 != 0))
        if i % 11 == 5:
            # an offset below an hour given by its minute keyword alone
            kw.pop("time_zone_hour", None)
            kw["time_zone_minute"] = rng.choice((-45, 30, -1, 59, -30, 15))
        if i % 7 == 3:
            # a decimal form whose fraction is binary (exact in floats) and
            # leaves a sub-second part
            for key in ("hour_of_day_decimal", "minute_of_hour_decimal",
                        "second_of_minute_decimal", "minute_of_hour",
                        "second_of_minute"):
                kw.pop(key, None)
            if kw.get("hour_of_day") == 24:
                kw["hour_of_day"] = 23
            form = rng.choice(("h", "hm", "hmsf"))
            if form == "h":
                kw["hour_of_day_decimal"] = rng.randrange(1, 4096) / 4096.0
            elif form == "hm":
                kw["minute_of_hour"] = rng.randrange(60)
                kw["minute_of_hour_decimal"] = rng.randrange(1, 128) / 128.0
            else:
                kw["minute_of_hour"] = rng.randrange(60)
                kw["second_of_minute"] = rng.randrange(60)
                kw["second_of_minute_decimal"] = rng.choice(
                    (0.5, 0.25, 0.75, 0.875, 0.96875))
        case = {"op": "to", "p": kw, "mode": mode}
        ctx.case = case
        if i % 999 == 0:
            ctx.sample(case)
        run_case(ctx, repo, case)
