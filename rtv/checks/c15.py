"""C15 - the active calendar mode alone determines calendar results.

Monitors: a history wrapper on Calendar.set_mode (afterwards the derived
constants are compared with the reference facts of that mode), reference
postconditions on the calendar helper functions and on their eight memoised
inner functions (mode key argument == CALENDAR.mode, result == reference for
the current mode).  Offline checker: every battery result recorded in the
mode history is compared with the table a fresh single-mode process
produced."""
import json
import os
import subprocess
import sys

from .. import battery
from .. import core
from .. import refmodel as R

RULE = ("cases = histories of Calendar.set_mode calls over the 7 mode "
        "spellings (and None) interleaved with a 40-item battery of "
        "calendar computations over few keys (years 1900, 2000, 2001, 2004, "
        "2100, 0, -1): conversions, lengths, arithmetic, validation, "
        "recurrence expansion, parsing, in-process CLI calls with "
        "--calendar / ISODATETIMECALENDAR / neither; structured part = "
        "every ordered pair of canonical modes (prev -> cur) followed by the "
        "whole battery; random part = seeded interleavings; each result is "
        "compared with a fresh process that only ever used the current mode; "
        "non-trivial = battery item evaluated after at least one switch to a "
        "different canonical mode; distinct by (previous mode, current mode "
        "spelling, item)")
RUN_REPO_SUITE = True   # thorough tier: repo tests under these monitors
DECIDING = ["battery.checked", "helper.post", "inner.post", "set_mode.post"]
MIN_EVALS = {"battery.checked": 1500, "helper.post": 20000,
             "inner.post": 500, "set_mode.post": 60}
SPELLS = ("gregorian", "360day", "360_day", "365day", "365_day", "366day",
          "366_day")
# Calendar.set_mode also accepts these (it lower-cases the name)
CASE_SPELLS = ("GREGORIAN", "Gregorian", "360DAY", "365_DAY", "366Day")
ASSUMPTIONS = ["fresh single-mode tables come from `python -m rtv.battery "
               "--mode M` child processes importing the same working tree"]


def fresh_tables():
    tables = {}
    procs = {}
    env = dict(os.environ)
    env["PYTHONHASHSEED"] = "0"
    env["PYTHONDONTWRITEBYTECODE"] = "1"
    env.pop("ISODATETIMECALENDAR", None)
    for mode in R.MODES:
        procs[mode] = subprocess.Popen(
            [sys.executable, "-m", "rtv.battery", "--mode", mode],
            cwd=core.VERIF, env=env, stdout=subprocess.PIPE,
            stderr=subprocess.PIPE)
    for mode, proc in procs.items():
        out, err = proc.communicate(timeout=300)
        if proc.returncode != 0:
            raise RuntimeError("fresh battery for %s failed: %s" % (
                mode, err.decode()[-500:]))
        tables[mode] = json.loads(out.decode())
    return tables


def install(ctx, repo, probes):
    D = repo.data
    Cal = D.Calendar
    ctx.history = []
    ctx.tables = None

    def mode_now():
        return R.canon(repo.CALENDAR.mode)

    def post_set_mode(snap, args, kwargs, res, exc):
        cal = args[0]
        req = args[1] if len(args) > 1 else kwargs.get("mode")
        ctx.ev("set_mode.post")
        if exc is not None:
            if req is None or req == "" or str(req).lower() in R.SPELLINGS:
                ctx.violation("set_mode.raised", "set_mode(%r) raised %r" % (
                    req, exc))
            return
        want = R.canon(req)
        ctx.history.append(("set_mode", req, want))
        facts = {
            "DAYS_IN_MONTHS": tuple(R.month_lengths(want, 2001)),
            "DAYS_IN_MONTHS_LEAP": tuple(R.month_lengths(want, 2004)),
            "DAYS_IN_YEAR": R.year_len(want, 2001),
            "DAYS_IN_YEAR_LEAP": R.year_len(want, 2004),
            "ROUGH_DAYS_IN_YEAR": R.year_len(want, 2001),
            "MONTHS_IN_YEAR": 12,
            "MAX_DAYS_IN_MONTH": max(R.month_lengths(want, 2001)),
            "SECONDS_IN_DAY": 86400,
            "SECONDS_IN_YEAR": R.year_len(want, 2001) * 86400,
            "SECONDS_IN_YEAR_LEAP": R.year_len(want, 2004) * 86400,
            "HOURS_IN_YEAR": R.year_len(want, 2001) * 24,
            "MINUTES_IN_YEAR_LEAP": R.year_len(want, 2004) * 1440,
            "INDEXED_DAYS_IN_MONTHS": [
                (i + 1, n) for i, n in
                enumerate(R.month_lengths(want, 2001))],
            "INDEXED_DAYS_IN_MONTHS_LEAP": [
                (i + 1, n) for i, n in
                enumerate(R.month_lengths(want, 2004))],
        }
        bad = {k: getattr(cal, k, None) for k, v in facts.items()
               if (tuple(getattr(cal, k, ())) if isinstance(v, tuple)
                   else getattr(cal, k, None)) != v}
        if R.canon(cal.mode) != want:
            bad["mode"] = cal.mode
        if bad:
            ctx.violation("set_mode.constants", "after set_mode(%r) the "
                          "calendar constants are not those of %s: %r" % (
                              req, want, bad))
    probes.wrap(Cal, "set_mode", post_set_mode)

    # outer helpers: result must be the reference's for the CURRENT mode
    def helper(name, ref):
        def post(snap, args, kwargs, res, exc):
            if kwargs:
                return
            mode = mode_now()
            try:
                want = ref(mode, *args)
            except Exception:
                return
            if want is None:
                return
            ctx.ev("helper.post")
            got = res
            if isinstance(want, tuple) and res is not None:
                got = tuple(res)
            if exc is not None or got != want:
                ctx.violation("helper." + name, "%s%r = %r (exc %r) under "
                              "mode %s after history ..%s; a fresh %s "
                              "process gives %r" % (
                                  name, tuple(args), res, exc,
                                  repo.CALENDAR.mode,
                                  [h[1] for h in ctx.history[-4:]], mode,
                                  want), fn=name, args=list(args))
        probes.wrap(D, name, post)

    def ints(*xs):
        return all(isinstance(x, int) and not isinstance(x, bool) for x in xs)

    def dim(mode, m, y="leap"):
        if not ints(m) or not 1 <= m <= 12:
            return None
        if y == "leap":
            return R.month_lengths(mode, 2004)[m - 1]
        if y is None:
            return R.month_lengths(mode, 2001)[m - 1]
        return R.month_len(mode, y, m) if ints(y) else None

    def conv(src, dst):
        def ref(mode, *args):
            if not ints(*args) or not R.valid_date(mode, src, tuple(args)):
                return None
            return tuple(R.rd_to_date(mode, dst, R.date_to_rd(
                mode, src, tuple(args))))
        return ref
    helper("get_days_in_year", lambda mode, y: R.year_len(mode, y)
           if ints(y) else None)
    helper("get_days_in_month", dim)
    helper("get_weeks_in_year", lambda mode, y: R.weeks_in_year(mode, y)
           if ints(y) else None)
    helper("get_days_in_year_range", lambda mode, a, b:
           R.days_in_year_range(mode, a, b) if ints(a, b) else None)
    helper("get_calendar_date_week_date_start", lambda mode, y:
           tuple(R.rd_to_ymd(mode, R.week_start(mode, y)))
           if ints(y) else None)
    helper("get_ordinal_date_week_date_start", lambda mode, y:
           tuple(R.rd_to_ord(mode, R.week_start(mode, y)))
           if ints(y) else None)
    helper("get_days_since_1_ad", lambda mode, y:
           (R.days_before_year(mode, y + 1) if y >= 1 else 0)
           if ints(y) else None)
    helper("get_calendar_date_from_ordinal_date", conv("ord", "cal"))
    helper("get_calendar_date_from_week_date", conv("week", "cal"))
    helper("get_ordinal_date_from_calendar_date", conv("cal", "ord"))
    helper("get_ordinal_date_from_week_date", conv("week", "ord"))
    helper("get_week_date_from_calendar_date", conv("cal", "week"))
    helper("get_week_date_from_ordinal_date", conv("ord", "week"))

    # inner memoised functions: the cache-key argument is the current mode
    INNER = ("_get_days_in_year_range", "_get_days_in_year",
             "_get_days_in_month", "_get_weeks_in_year",
             "_get_calendar_date_week_date_start", "_get_days_since_1_ad",
             "_get_ordinal_date_week_date_start", "_iter_months_days")

    def inner(name, pos):
        def post(snap, args, kwargs, res, exc):
            ctx.ev("inner.post")
            ctx.cls("inner/" + name)
            cur = repo.CALENDAR.mode
            if len(args) <= pos or args[pos] != cur:
                ctx.violation("inner.key", "%s called with cache key %r "
                              "while the active mode is %r (args %r)" % (
                                  name, args[pos] if len(args) > pos else
                                  "<missing>", cur, args), fn=name)
        if hasattr(D, name):
            probes.wrap(D, name, post)
            ctx.target("inner/" + name)
        else:
            ctx.notes.append("inner helper %s not present" % name)
    for name in INNER:
        inner(name, {"_get_days_in_year_range": 2, "_get_days_in_month": 2,
                     "_iter_months_days": 3}.get(name, 1))

    def post_iter(snap, args, kwargs, res, exc):
        y = args[0]
        if len(args) != 1 or kwargs or not ints(y):
            return
        mode = mode_now()
        ctx.ev("helper.post")
        lens = R.month_lengths(mode, y)
        want = [(m + 1, d) for m in range(12) for d in range(1, lens[m] + 1)]
        if exc is not None or list(res) != want:
            ctx.violation("helper.iter_months_days", "iter_months_days(%d) "
                          "has %d days under mode %s, a fresh process gives "
                          "%d" % (y, len(res or ()), repo.CALENDAR.mode,
                                  len(want)))
    probes.wrap(D, "iter_months_days", post_iter)
    for a in R.MODES:
        for b in R.MODES:
            if a != b:
                ctx.target("switch/%s->%s" % (a, b))
    ctx.target("cli/option", "cli/env", "cli/neither", "cli/both",
               "fresh-year/after-switch", "scratch-calendar",
               "live-iterator/after-switch", "child/import-env")


def run_case(ctx, repo, case):
    """a history: list of steps ["set", spelling] | ["item", name] |
    ["cli", name, how, spelling]"""
    if case.get("op") != "history":
        return
    if ctx.tables is None:
        ctx.tables = fresh_tables()
    names = dict(battery.items(repo))
    cli = dict(battery.CLI_ITEMS)
    repo.CALENDAR.set_mode("gregorian")
    prev = "gregorian"
    switched = False
    ctx.live = {}
    name_of = case["steps"]
    try:
        for step in case["steps"]:
            if step[0] == "set":
                before = R.canon(repo.CALENDAR.mode)
                repo.CALENDAR.set_mode(step[1])
                after = R.canon(repo.CALENDAR.mode)
                if after != before:
                    prev = before
                    switched = True
                    ctx.cls("switch/%s->%s" % (before, after))
                continue
            if step[0] == "liveiter":
                # one iteration over an unbounded daily recurrence kept open
                # across the whole history: each element is the previous one
                # plus a day *in the mode active when it is asked for*
                ctx.ev("live-iterator")
                cur = R.canon(repo.CALENDAR.mode)
                live = ctx.live
                if live.get("prev") is not None and \
                        not R.tp_valid(cur, live["prev"]):
                    live.clear()        # (28 Feb + 2 exists in 360day only)
                if "it" not in live:
                    live["it"] = iter(repo.parsers.TimeRecurrenceParser(
                        repo.parsers.TimePointParser(
                            assumed_time_zone=(0, 0))).parse(
                                "R/2001-02-2%dT00Z/P1D" % (5 + len(name_of)
                                                          % 3)))
                    live["prev"] = None
                got = next(live["it"])
                if live["prev"] is not None:
                    want = R.pt_add(cur, R.pt_of(live["prev"]),
                                    (0, 0, 86400))
                    if not R.pt_same_fields(want, got):
                        ctx.violation(
                            "battery.live-iterator", "an open iteration "
                            "yielded %r after %r under %s (previous mode "
                            "%s): not the day after in this calendar" % (
                                R.tp_key(got), R.tp_key(live["prev"]),
                                repo.CALENDAR.mode, prev))
                        live.clear()
                        continue
                    if switched:
                        ctx.cls("live-iterator/after-switch")
                live["prev"] = got
                continue
            if step[0] == "scratch":
                # a private Calendar object set to some mode: the active
                # calendar (Calendar.default()) is not concerned
                ctx.ev("scratch-calendar")
                ctx.in_oracle += 1      # (not part of the observed history)
                try:
                    other = repo.data.Calendar()
                    if step[1]:
                        other.set_mode(step[1])
                finally:
                    ctx.in_oracle -= 1
                ctx.cls("scratch-calendar")
                continue
            if step[0] == "fresh":
                # a year this process has probably never touched, so
                # whatever is memoised for it is memoised under the current
                # mode first; decided by the helper monitors (reference for
                # the current mode) and here for the leap-day arithmetic
                y = step[1]
                cur = R.canon(repo.CALENDAR.mode)
                ctx.ev("fresh-year.checked")
                D = repo.data
                D.get_days_in_year(y)
                D.get_days_in_month(2, y)
                D.get_weeks_in_year(y)
                D.get_days_in_year_range(y - 1, y + 1)
                try:
                    p = repo.TimePoint(year=y, month_of_year=2,
                                       day_of_month=28) + \
                        repo.Duration(days=1)
                    got = (p.month_of_year, p.day_of_month)
                except ValueError as exc:
                    got = "error:" + type(exc).__name__
                want = (2, 29) if R.month_len(cur, y, 2) > 28 else (3, 1)
                if got != want:
                    ctx.violation("battery.fresh-year", "%d-02-28 + P1D "
                                  "gives %r under %s (previous mode %s), the "
                                  "mode's calendar says %r" % (
                                      y, got, repo.CALENDAR.mode, prev, want),
                                  year=y, mode=cur, prev=prev)
                if switched:
                    ctx.cls("fresh-year/after-switch")
                continue
            if step[0] == "item":
                name = step[1]
                cur = R.canon(repo.CALENDAR.mode)
                try:
                    got = names[name]()
                except ValueError as exc:
                    got = "error:" + type(exc).__name__
                except Exception as exc:
                    got = "raised:%r" % (exc,)
            else:
                _, name, how, spell = step
                before = R.canon(repo.CALENDAR.mode)
                if how == "option":
                    # --calendar only offers the four canonical names
                    got = battery.run_cli(repo, cli[name],
                                          mode_opt=R.canon(spell))
                    cur = R.canon(spell)
                elif how == "env":
                    got = battery.run_cli(repo, cli[name], env_mode=spell)
                    cur = R.canon(spell)
                elif how == "both":
                    # documented order: the option, then the environment
                    others = [m for m in R.MODES if m != R.canon(spell)]
                    other = others[len(name) % 3]
                    if len(spell) % 2:
                        other = other.replace("day", "_day")
                    got = battery.run_cli(repo, cli[name],
                                          mode_opt=R.canon(spell),
                                          env_mode=other)
                    cur = R.canon(spell)
                else:
                    got = battery.run_cli(repo, cli[name])
                    cur = "gregorian"
                ctx.cls("cli/" + how)
                if R.canon(repo.CALENDAR.mode) != cur:
                    ctx.violation("cli.mode", "after the CLI call (%s %s) "
                                  "the active mode is %r, expected %s" % (
                                      how, spell, repo.CALENDAR.mode, cur))
                if cur != before:
                    prev = before
                    switched = True
                    ctx.cls("switch/%s->%s" % (before, cur))
            ctx.ev("battery.checked")
            want = ctx.tables[cur][name]
            got_j = json.loads(json.dumps(got))
            if got_j != want:
                ctx.violation("battery." + name.split("/")[0],
                              "%s under %s (previous mode %s) gives %r; a "
                              "fresh %s process gives %r" % (
                                  name, repo.CALENDAR.mode, prev, got_j, cur,
                                  want), item=name, mode=cur, prev=prev)
            if switched:
                ctx.nontrivial((prev, repo.CALENDAR.mode, name))
    finally:
        repo.CALENDAR.set_mode("gregorian")


def workload(ctx, repo):
    rng = ctx.rng
    names = [n for n, _ in battery.items(repo)]
    clis = [n for n, _ in battery.CLI_ITEMS]
    spell_of = {}
    for s in SPELLS:
        spell_of.setdefault(R.canon(s), []).append(s)
    # structured: every ordered pair of canonical modes, then the battery
    rounds = 1 if ctx.tier == "quick" else 4
    k = 0
    for _ in range(rounds):
        for a in R.MODES:
            for b in R.MODES:
                if a == b:
                    continue
                k += 1
                if not ctx.mine(k):
                    continue
                fresh = [rng.choice((4, 4, 100, 400, 1)) *
                         rng.randint(-700, 2900) for _ in range(8)]
                steps = [["set", rng.choice(spell_of[a])]]
                steps += [["fresh", y] for y in fresh]
                steps += [["item", n] for n in rng.sample(names, 12)]
                steps += [["set", rng.choice(spell_of[b])]]
                steps += [["scratch", rng.choice(spell_of[a] + [None])]]
                steps += [["liveiter"]]
                steps.insert(1, ["liveiter"])
                steps.insert(1, ["liveiter"])
                steps += [["fresh", y] for y in fresh]
                order = list(names)
                rng.shuffle(order)
                steps += [["item", n] for n in order]
                for n in clis:
                    how = rng.choice(("option", "env", "neither", "both"))
                    steps.append(["cli", n, how, rng.choice(spell_of[a])])
                    steps.append(["item", rng.choice(names)])
                    steps.append(["set", rng.choice(spell_of[b])])
                case = {"op": "history", "steps": steps}
                ctx.case = case
                run_case(ctx, repo, case)
    # random interleavings
    nh = 40 if ctx.tier == "quick" else 60
    for h in range(nh):
        steps = []
        for _ in range(rng.randint(200, 500)):
            v = rng.random()
            if v < 0.25:
                steps.append(["set", rng.choice(SPELLS + CASE_SPELLS +
                                                (None, ""))])
            elif v < 0.27:
                steps.append(["liveiter"])
            elif v < 0.28:
                steps.append(["scratch", rng.choice(SPELLS + (None,))])
            elif v < 0.35:
                steps.append(["fresh", 4 * rng.randint(-700, 2900)])
                if rng.random() < 0.5:
                    # the same year again a few steps later
                    steps.append(["set", rng.choice(SPELLS + CASE_SPELLS)])
                    steps.append(list(steps[-2]))
            elif v < 0.9:
                steps.append(["item", rng.choice(names)])
            else:
                steps.append(["cli", rng.choice(clis),
                              rng.choice(("option", "env", "neither",
                                          "both")),
                              rng.choice(("gregorian", "360day", "365day",
                                          "366day"))])
        case = {"op": "history", "steps": steps}
        ctx.case = case
        if h < 2:
            ctx.sample({"op": "history", "steps": steps[:25],
                        "note": "first 25 of %d steps" % len(steps)})
        run_case(ctx, repo, case)
    ctx.extra["history_events"] = len(ctx.history)
    # real child processes: python -m metomi.isodatetime.main
    if ctx.worker == 0:
        env = dict(os.environ)
        env["PYTHONPATH"] = core.REPO
        env["PYTHONDONTWRITEBYTECODE"] = "1"
        env["TZ"] = "UTC"
        todo = [(n, a, m, how) for n, a in battery.CLI_ITEMS
                for m in R.MODES for how in ("option", "env")]
        if ctx.tier == "quick":
            todo = [todo[(7 * i + ctx.seed) % len(todo)] for i in range(6)]
        # the variable as it was when the library was imported is history:
        # without option and variable the default (Gregorian) applies
        for start_mode in ("360day", "366_day"):
            e = dict(env)
            e["ISODATETIMECALENDAR"] = start_mode
            code = (
                "import os\n"
                "import metomi.isodatetime.data as D\n"
                "from metomi.isodatetime.datetimeoper import "
                "DateTimeOperator\n"
                "os.environ.pop('ISODATETIMECALENDAR')\n"
                "DateTimeOperator()\n"
                "a = (D.CALENDAR.mode, D.get_days_in_month(2, 2001))\n"
                "D.CALENDAR.set_mode('365day')\n"
                "D.CALENDAR.set_mode()\n"
                "print(a, (D.CALENDAR.mode, D.get_days_in_year(2004)))\n")
            ctx.case = {"op": "child-import-env", "mode": start_mode}
            proc = subprocess.run([sys.executable, "-c", code], env=e,
                                  cwd=core.VERIF, stdin=subprocess.DEVNULL,
                                  stdout=subprocess.PIPE,
                                  stderr=subprocess.PIPE, timeout=120)
            ctx.ev("child.checked")
            want = "('gregorian', 28) ('gregorian', 366)\n"
            if proc.stdout.decode() != want:
                ctx.violation("child.import-env", "a process started with "
                              "ISODATETIMECALENDAR=%s that later removes the "
                              "variable and asks for the default mode "
                              "reports %r (stderr %r), expected %r" % (
                                  start_mode, proc.stdout.decode(),
                                  proc.stderr.decode()[-200:], want))
            else:
                ctx.cls("child/import-env")
        for name, argv, mode, how in todo:
            e = dict(env)
            e.pop("ISODATETIMECALENDAR", None)
            args = list(argv)
            if how == "option":
                args += ["--calendar", mode]
            else:
                e["ISODATETIMECALENDAR"] = rng.choice(spell_of[mode])
            ctx.case = {"op": "child", "argv": args, "how": how,
                        "mode": mode}
            proc = subprocess.run(
                [sys.executable, "-m", "metomi.isodatetime.main"] + args,
                env=e, cwd=core.VERIF, stdin=subprocess.DEVNULL,
                stdout=subprocess.PIPE, stderr=subprocess.PIPE, timeout=120)
            ctx.ev("child.checked")
            got = proc.stdout.decode()
            if proc.returncode != 0 or got != ctx.tables[mode][name]:
                ctx.violation("child." + how, "child isodatetime %r (%s %s) "
                              "printed %r (exit %d), a fresh %s process "
                              "gives %r" % (args, how, mode, got,
                                            proc.returncode, mode,
                                            ctx.tables[mode][name]))
