"""C10 - durations survive a round trip through text.

Probes on Duration.__str__ and DurationParser.parse record every dump/parse
event; the trace checker decides each chain: parse(str(d)) == d component-
wise and by ==, str is a fixpoint, designator strings spelled by the
reference encoder decode to the spelled components, and the alternative
date-time-like spelling equals its designator spelling."""
from fractions import Fraction as F

from .. import refmodel as R

RULE = ("cases = single-signed Durations built from component kwargs (each "
        "unit absent / zero / present, integers to 10^6, decimals of 1-6 "
        "digits on any time unit, both signs, weeks form) for the round "
        "trip; designator / weeks strings spelled by the reference encoder "
        "(comma or point decimals, leading '-') and alternative P[YYYY]-[MM]-"
        "[DD]T[hh]:[mm]:[ss] strings (extended, basic, ordinal) for faithful "
        "parsing; non-trivial = at least one non-zero component; distinct by "
        "the component tuple or string")
DECIDING = ["roundtrip", "spelled", "alternative"]
MIN_EVALS = {"roundtrip": 4000, "spelled": 3000, "alternative": 1000,
             "str.seen": 4000, "parse.seen": 8000}
ASSUMPTIONS = ["decimal components are compared within 1e-9 relative "
               "(binary floats); integer components exactly"]
UNITS = ("years", "months", "days", "hours", "minutes", "seconds")
DESIG = {"years": "Y", "months": "M", "days": "D", "hours": "H",
         "minutes": "M", "seconds": "S"}


def install(ctx, repo, probes):
    def post_str(snap, args, kwargs, res, exc):
        if type(args[0]) is repo.Duration:
            ctx.ev("str.seen")
    probes.wrap(repo.Duration, "__str__", post_str)

    def post_parse(snap, args, kwargs, res, exc):
        ctx.ev("parse.seen")
    probes.wrap(repo.parsers.DurationParser, "parse", post_parse)
    ctx.dparser = repo.parsers.DurationParser()
    for u in UNITS:
        ctx.target("unit/" + u)
    for u in ("hours", "minutes", "seconds"):
        ctx.target("decimal/" + u)
    for how in DERIVE:
        ctx.target("derived/" + how)
    ctx.target("derived/from-hashed-operand")
    ctx.target("alt/date-only/cal", "alt/date-only/ord",
               "alt/date-only/month", "alt/date-only/year")
    ctx.target("weeks", "negative", "empty", "alt/ext", "alt/basic",
               "alt/ordinal", "decimal/non-final-unit", "point-decimal",
               "after-rejected-input")


def comps(d):
    if d._weeks is not None:
        return {"weeks": d._weeks}
    return {u: getattr(d, "_" + u) for u in UNITS}


def close(a, b):
    if a is None or b is None:
        return a is b
    if isinstance(a, int) and isinstance(b, int):
        return a == b
    return abs(F(a) - F(b)) <= F(1, 10**9) * max(1, abs(F(a)))


def _exact_part_seconds(kw):
    return abs(sum(F(kw.get(u, 0) or 0) * k for u, k in (
        ("weeks", 604800), ("days", 86400), ("hours", 3600),
        ("minutes", 60), ("seconds", 1))))


def classify_beyond_float(kind, case, detail):
    """the exact part (weeks..seconds) of the duration is 2**53 seconds or
    more: the library totals it in floats (absent time components are float
    zeros, H/M/S are parsed as floats)"""
    if not kind.startswith(("roundtrip.", "spelled.")):
        return False
    kw = (case or {}).get("d") or (case or {}).get("want")
    if not isinstance(kw, dict):
        return False
    return _exact_part_seconds(kw) >= 2 ** 53


CLASSIFIERS = {"c10_exact_part_beyond_float_precision": classify_beyond_float}
FINDING_EXAMPLES = {
    "c10_exact_part_beyond_float_precision": {
        "op": "roundtrip", "d": {"hours": 2 ** 53 + 1}},
}


def same_components(d, want):
    got = comps(d)
    if want.get("weeks", 1) == 0:
        # zero weeks is the empty (unit-form) duration
        want = {}
    if "weeks" in want or "weeks" in got:
        return got.get("weeks") == want.get("weeks") and \
            set(got) == set(want)
    return all(close(got[u], want.get(u, 0)) for u in UNITS)


def run_case(ctx, repo, case):
    op = case["op"]
    P = ctx.dparser
    if op == "roundtrip":
        d = repo.dur(case["d"])
        how = case.get("derive")
        if how:
            # the same for durations that come out of arithmetic (all of
            # these keep one sign)
            n = case.get("n", 2)
            if case.get("hashed"):
                # the operand has been a dictionary key / set member before
                hash(d)
                {d: 1}
                ctx.cls("derived/from-hashed-operand")
            try:
                d = {"x0": lambda: d * 0, "d-d": lambda: d - d,
                     "xn": lambda: d * n, "nx": lambda: n * d,
                     "//n": lambda: d // n, "abs": lambda: abs(d),
                     "d+d": lambda: d + d, "to_days": lambda: d.to_days(),
                     "to_weeks": lambda: d.to_weeks(),
                     "0+d": lambda: repo.Duration() + d}[how]()
            except Exception as exc:
                ctx.violation("roundtrip.raised", "%s on %r raised %r" % (
                    how, case["d"], exc), d=case["d"])
                return
            ctx.cls("derived/" + how)
        ctx.ev("roundtrip")
        try:
            s = str(d)
            p = P.parse(s)
            s2 = str(p)
        except Exception as exc:
            ctx.violation("roundtrip.raised", "round trip of %r raised %r" % (
                case["d"], exc), d=case["d"])
            return
        prob = None
        if not same_components(p, comps(d)):
            prob = "components %r" % (comps(p),)
        elif (p == d) is not True or (d == p) is not True:
            prob = "parsed duration does not compare equal"
        elif hash(p) != hash(d):
            prob = "hash differs"
        elif s2 != s:
            prob = "str not a fixpoint: %r then %r" % (s, s2)
        if prob:
            ctx.violation("roundtrip.wrong", "parse(str(d)) for %r (text %r): "
                          "%s" % (case["d"], s, prob), d=case["d"])
            return
        c = comps(d)
        if "weeks" in c:
            ctx.cls("weeks")
        nz = [u for u, v in c.items() if v]
        for u in nz:
            if u != "weeks":
                ctx.cls("unit/" + u)
                if F(c[u]).denominator != 1:
                    ctx.cls("decimal/" + u)
                    if any(c[w] for w in UNITS[UNITS.index(u) + 1:]):
                        ctx.cls("decimal/non-final-unit")
        if nz and all(c[u] < 0 for u in nz):
            ctx.cls("negative")
        if not nz:
            ctx.cls("empty")
        else:
            ctx.nontrivial(("rt", sorted(case["d"].items())))
    elif op == "spelled":
        ctx.ev("spelled")
        text, want = case["text"], case["want"]
        if case.get("poison"):
            # a refused expression must leave the (re-used) parser unchanged
            try:
                P.parse(case["poison"])
            except ValueError:
                ctx.cls("after-rejected-input")
        try:
            p = P.parse(text)
        except Exception as exc:
            ctx.violation("spelled.rejected", "well-formed %r rejected: %r"
                          % (text, exc), text=text)
            return
        if not same_components(p, want):
            ctx.violation("spelled.wrong", "%r parsed as %r, spelled %r" % (
                text, comps(p), want), text=text)
            return
        # parsing is a function of the text alone: the same text again, and
        # its sign-flipped twin, must decode consistently (history)
        ctx.ev("spelled.repeat")
        flipped = text[1:] if text.startswith("-") else "-" + text
        try:
            again = P.parse(text)
            twin = P.parse(flipped)
        except Exception as exc:
            ctx.violation("spelled.repeat", "re-parsing %r / %r raised %r" % (
                text, flipped, exc), text=text)
            return
        neg = {k: (-v if v else v) for k, v in want.items()}
        if not same_components(again, want) or \
                not same_components(twin, neg):
            ctx.violation("spelled.repeat", "%r parsed a second time as %r "
                          "and %r as %r (first parse %r)" % (
                              text, comps(again), flipped, comps(twin),
                              comps(p)), text=text)
            return
        if "." in text:
            ctx.cls("point-decimal")
        ctx.nontrivial(("sp", text))
    else:
        ctx.ev("alternative")
        try:
            a = P.parse(case["alt"])
            b = P.parse(case["desig"])
        except Exception as exc:
            ctx.violation("alternative.rejected", "%r / %r rejected: %r" % (
                case["alt"], case["desig"], exc), text=case["alt"])
            return
        decimal = any(F(v).denominator != 1 for v in case["want"].values())
        if not same_components(a, comps(b)) or \
                (not decimal and (a == b) is not True) or \
                not same_components(b, case["want"]):
            ctx.violation("alternative.wrong", "%r parsed as %r but %r "
                          "parsed as %r" % (case["alt"], comps(a),
                                            case["desig"], comps(b)),
                          text=case["alt"])
            return
        ctx.cls("alt/" + case["kind"])
        ctx.nontrivial(("alt", case["alt"]))


def rand_value(rng, unit, decimal_ok):
    v = rng.random()
    if v < 0.35:
        n = rng.randint(1, 9)
    elif v < 0.7:
        n = rng.randint(10, 99999)
    else:
        n = rng.choice((1, 10, 60, 24, 100, 1000, 10**6, 999999, 365, 366))
    if rng.random() < 0.03:
        # whole numbers of every magnitude, also beyond the integers a
        # float holds exactly
        return rng.choice((2 ** 53 + 1, 2 ** 53 + 3, 10 ** 17 + 1,
                           10 ** 20 + 7, 10 ** 15 + 1,
                           rng.randrange(10 ** 15, 10 ** 24) | 1))
    if decimal_ok and unit in ("hours", "minutes", "seconds") and \
            rng.random() < 0.04:
        # one float step beside a whole number; and values far below a
        # microsecond down to the smallest float
        import math
        m = rng.choice((1.0, 2.0, 60.0, 435.0, 1000.0, float(2 ** 51)))
        return rng.choice((
            math.nextafter(m, 0.0), math.nextafter(m, math.inf),
            0.7 + 0.2 + 0.1, 4.35 * 100, 2.0 ** 51 + 0.5,
            1e-16, 2.0 ** -52, 2.0 ** -60, 5e-324, 2.2250738585072014e-308,
            3e-17))
    if decimal_ok and unit in ("hours", "minutes", "seconds") and \
            rng.random() < 0.35:
        k = rng.choice((1, 2, 3, 4, 5, 6, 6, 9, 12))
        return rng.choice((n, 0)) + rng.choice(
            (0.5, 0.25, 0.1, 0.000001, 0.999999, 1.23456789e-05, 4e-10,
             rng.randrange(1, 10 ** k) / 10 ** k))
    return n


def make_duration(rng):
    if rng.random() < 0.12:
        return {"weeks": rng.choice((1, -1, 52, rng.randint(-5000, 5000),
                                     10 ** 20 + 1, -(2 ** 53) - 1))}
    sign = rng.choice((1, 1, -1))
    kw = {}
    v = rng.random()
    present = [u for u in UNITS if rng.random() < (0.25 if v < 0.5 else 0.7)]
    if v < 0.15:
        present = [rng.choice(UNITS)]
    for u in present:
        val = rand_value(rng, u, True)
        kw[u] = sign * val
    for u in UNITS:
        if u not in kw and rng.random() < 0.15:
            kw[u] = 0 if u in ("years", "months", "days") else \
                rng.choice((0, 0.0))
    return kw


def fmt_num(rng, v, point):
    if isinstance(v, int):
        if rng.random() < 0.1:
            return "%03d" % v
        return str(v)
    s = repr(v)
    if "e" in s:
        # positional notation with every digit of the shortest repr
        from decimal import Decimal
        s = format(Decimal(s), "f")
    return s.replace(".", point)


def make_spelled(rng):
    """designator string from chosen components (reference encoder)"""
    point = rng.choice(",,.")
    if rng.random() < 0.12:
        n = rng.randint(0, 9999)
        neg = rng.random() < 0.3
        return ("-" if neg else "") + "P%dW" % n, {"weeks": -n if neg else n}
    want = {}
    date = ""
    for u in ("years", "months", "days"):
        if rng.random() < 0.45:
            v = rand_value(rng, u, False)
            want[u] = v
            date += fmt_num(rng, v, point) + DESIG[u]
    time = ""
    tunits = [u for u in ("hours", "minutes", "seconds")
              if rng.random() < 0.45]
    for i, u in enumerate(tunits):
        v = rand_value(rng, u, i == len(tunits) - 1 or rng.random() < 0.2)
        want[u] = v
        time += fmt_num(rng, v, point) + DESIG[u]
    if not date and not time:
        date = "0Y"
        want["years"] = 0
    neg = rng.random() < 0.25
    text = ("-" if neg else "") + "P" + date + ("T" + time if time else "")
    if neg:
        want = {k: -v for k, v in want.items()}
    return text, want


def make_alt_date_only(rng):
    """alternative spellings without a time part: complete dates (calendar
    or ordinal, basic or extended), the reduced forms P[YYYY]-[MM] and
    P[YYYY], and the same with an expanded +YYYYYY year; every unit that is
    not spelled is zero"""
    y = rng.choice((0, 1, 4, 10, 1985, 9999, rng.randint(0, 9999)))
    mo, dd, ddd = rng.randint(0, 12), rng.randint(0, 30), rng.randint(0, 365)
    ext = rng.random() < 0.5
    sep = "-" if ext else ""
    ys = "%04d" % y if rng.random() < 0.75 else "+%06d" % y
    form = rng.choice(("cal", "ord", "month", "year"))
    want = {"years": y, "months": 0, "days": 0, "hours": 0, "minutes": 0,
            "seconds": 0}
    if form == "cal":
        want.update(months=mo, days=dd)
        alt = "%s%s%02d%s%02d" % (ys, sep, mo, sep, dd)
        desig = "%dY%dM%dD" % (y, mo, dd)
    elif form == "ord":
        want.update(days=ddd)
        alt = "%s%s%03d" % (ys, sep, ddd)
        desig = "%dY%dD" % (y, ddd)
    elif form == "month":
        want.update(months=mo)
        alt = "%s-%02d" % (ys, mo)          # no basic form exists
        desig = "%dY%dM" % (y, mo)
    else:
        alt = ys
        desig = "%dY" % y
    return {"op": "alt", "alt": "P" + alt, "desig": "P" + desig,
            "want": want, "kind": "date-only/" + form}


def make_alt(rng):
    if rng.random() < 0.3:
        return make_alt_date_only(rng)
    y = rng.choice((0, 1, 10, 1985, 9999, rng.randint(0, 9999)))
    h, mi, s = rng.randrange(24), rng.randrange(60), rng.randrange(60)
    kind = rng.choice(("ext", "basic", "ordinal"))
    tform = rng.choice((3, 3, 2, 1))
    want = {"years": y, "hours": h}
    desig_t = "%dH" % h
    if tform >= 2:
        want["minutes"] = mi
        desig_t += "%dM" % mi
    else:
        want["minutes"] = 0
    if tform >= 3:
        want["seconds"] = s
        desig_t += "%dS" % s
    else:
        want["seconds"] = 0
    if kind == "ordinal":
        ddd = rng.randint(0, 365)
        ext = rng.random() < 0.5
        want["days"] = ddd
        alt_d = "%04d%s%03d" % (y, "-" if ext else "", ddd)
        desig_d = "%dY%dD" % (y, ddd)
    else:
        mo, dd = rng.randint(0, 12), rng.randint(0, 30)
        ext = kind == "ext"
        want["months"], want["days"] = mo, dd
        sep = "-" if ext else ""
        alt_d = "%04d%s%02d%s%02d" % (y, sep, mo, sep, dd)
        desig_d = "%dY%dM%dD" % (y, mo, dd)
    tsep = ":" if ext else ""
    alt_t = "%02d" % h
    if tform >= 2:
        alt_t += tsep + "%02d" % mi
    if tform >= 3:
        alt_t += tsep + "%02d" % s
    if rng.random() < 0.35:
        # decimal fraction on the last spelled unit
        k = rng.choice((1, 2, 3, 4, 6, 7, 9, 12))
        digits = "%0*d" % (k, rng.randrange(1, 10 ** k))
        point = rng.choice(",.")
        alt_t += point + digits
        frac = float("0." + digits)
        unit = {1: "hours", 2: "minutes", 3: "seconds"}[tform]
        want[unit] = want[unit] + frac
        desig_t = ""
        for u, letter in (("hours", "H"), ("minutes", "M"),
                          ("seconds", "S")):
            if u == unit:
                desig_t += ("%d" % int(want[u])) + "," + digits + letter
                break
            desig_t += "%d%s" % (want[u], letter)
    return {"op": "alt", "alt": "P" + alt_d + "T" + alt_t,
            "desig": "P" + desig_d + "T" + desig_t, "want": want,
            "kind": kind}


DERIVE = ("x0", "d-d", "xn", "nx", "//n", "abs", "d+d", "to_days",
          "to_weeks", "0+d")


def workload(ctx, repo):
    rng = ctx.rng
    n = 8000 if ctx.tier == "quick" else 30000
    fixed = [{"years": 10 ** 4299}, {"months": -(10 ** 4299) - 7},
             {"years": 10 ** 4298 + 1}, {"years": 10 ** 640},
             {}, {"years": 0}, {"weeks": 0}, {"days": 0, "hours": 0.0},
             {"weeks": 1}, {"weeks": -1}, {"hours": 1.5, "minutes": 3},
             # counts given as True (an int whose str() is not a numeral)
             {"years": True}, {"hours": True, "minutes": 2},
             {"months": True, "days": True}, {"seconds": True},
             {"minutes": True}, {"weeks": True},
             {"seconds": 0.000001}, {"years": -1, "months": -2, "days": -3,
                                     "hours": -4, "minutes": -5,
                                     "seconds": -6.5}]
    for k in range(n):
        kw = fixed[k] if k < len(fixed) else make_duration(rng)
        case = {"op": "roundtrip", "d": kw}
        ctx.case = case
        if k % 997 == 1:
            ctx.sample(case)
        run_case(ctx, repo, case)
        if k % 3 == 0:
            how = DERIVE[(k // 3) % len(DERIVE)]
            if how == "to_weeks" and ("weeks" in kw or any(
                    kw.get(u) for u in ("years", "months"))):
                how = "x0"
            case = {"op": "roundtrip", "d": kw, "derive": how,
                    "n": rng.choice((1, 2, 3, 5, 7))}
            if (k // 3) % 2:
                case["hashed"] = True
            ctx.case = case
            run_case(ctx, repo, case)
        if k % 4 < 3:
            text, want = make_spelled(rng)
            case = {"op": "spelled", "text": text, "want": want}
            if k % 5 == 0:
                case["poison"] = rng.choice((
                    "-P1X", "-P0004-03-02T01:02:03", "-PT1e999S", "-P",
                    "-garbage", "P1X", "-P1DT", "-PT5M3H", "--P1D"))
            ctx.case = case
            if k % 997 == 2:
                ctx.sample(case)
            run_case(ctx, repo, case)
        if k % 4 == 0:
            case = make_alt(rng)
            ctx.case = case
            if k % 996 == 0:
                ctx.sample(case)
            run_case(ctx, repo, case)
