"""C12 - a recurrence iterates exactly the series it denotes.

Monitor: a generator wrapper on TimeRecurrence.__iter__ logs every yielded
point per recurrence object (the series log); when an iteration ends (or is
abandoned) the offline series checker validates anchor, step relation
(reference point arithmetic), order, count and anchor membership.  A
postcondition on TimeRecurrence.__init__ checks the derived interval / far
anchor against the reference."""
import copy
import itertools
import pickle
from fractions import Fraction as F

from .. import gen
from .. import recgen
from .. import refmodel as R

RULE = ("cases = recurrence descriptions (mode, notation 1/3/4, repetitions "
        "in {None,1,2,3,5,9,50}, anchor in any representation/offset biased "
        "to month ends / leap days / W53, interval exact (seconds..weeks, "
        "zero) or nominal (P1M, P1Y, P1M2D, P30Y2DT15H, ...)); unbounded "
        "ones consumed to 12 points; plus the three notations of one finite "
        "exact series; non-trivial = at least two points were yielded; "
        "distinct by the description")
RUN_REPO_SUITE = True   # thorough tier: repo tests under these monitors
DECIDING = ["series.checked", "init.post", "three-notations",
            "series.checked-decimal"]
MIN_EVALS = {"series.checked": 2500, "init.post": 2500,
             "three-notations": 300, "series.checked-decimal": 300}
ASSUMPTIONS = [
    "anchors are whole-second points (exact regime); steps are compared by "
    "fields with the reference stepper (exact part, then months, then "
    "years)",
    "anchors spelled with a decimal fraction (start/duration and "
    "duration/end notations, exact intervals): first point, step lengths, "
    "order and count are decided on instants within 1e-5 s",
]


def ref_nonadditive(desc):
    """reference demonstration of the known mechanism: for this bounded
    nominal recurrence, n-1 repeated single steps from the far/near anchor do
    not coincide with one multiplied step (format 3), or stepping forward
    from the multiplied-subtraction start does not land on the given end
    (format 4)"""
    if not recgen.is_nominal(desc) or not desc["reps"] or desc["reps"] < 2:
        return False
    mode = desc["mode"]
    n = desc["reps"]
    y, m, s = recgen.interval_tuple(desc)
    a = desc["start"] if desc["fmt"] == 3 else desc["end"]
    rep = "cal" if "month_of_year" in a else (
        "ord" if "day_of_year" in a else "week")
    date = {"cal": lambda: (a["year"], a["month_of_year"],
                            a["day_of_month"]),
            "ord": lambda: (a["year"], a["day_of_year"]),
            "week": lambda: (a["year"], a["week_of_year"],
                             a["day_of_week"])}[rep]()
    pt = {"rep": rep, "date": date,
          "sod": F(a["hour_of_day"] * 3600 + a.get("minute_of_hour", 0) * 60
                   + a.get("second_of_minute", 0)),
          "off": a.get("time_zone_hour", 0) * 60 +
          a.get("time_zone_minute", 0)}
    if desc["fmt"] == 3:
        mult = R.pt_add(mode, pt, (y * (n - 1), m * (n - 1), s * (n - 1)))
        cur = pt
        for _ in range(n - 1):
            cur = R.pt_add(mode, cur, (y, m, s))
        return cur != mult
    if desc["fmt"] == 4:
        start = R.pt_add(mode, pt, (-y * (n - 1), -m * (n - 1),
                                    -s * (n - 1)))
        cur = start
        for _ in range(n - 1):
            cur = R.pt_add(mode, cur, (y, m, s))
        return cur != pt
    return False


def classify_far_anchor(kind, case, detail):
    if kind not in ("series.count", "series.anchor-missing"):
        return False
    desc = (case or {}).get("desc")
    if not desc or detail.get("rec_id_is_case") is not True:
        return False
    return ref_nonadditive(desc)


def classify_decimal_drop(kind, case, detail):
    return kind == "series.count-decimal" and \
        detail.get("float_drop") is True


CLASSIFIERS = {"c12_nominal_bounded_far_anchor": classify_far_anchor,
               "c12_decimal_anchor_float_drop": classify_decimal_drop}
FINDING_EXAMPLES = {
    "c12_decimal_anchor_float_drop": {
        "op": "iterate", "decimal": True, "desc": {
            "mode": "gregorian", "fmt": 3, "reps": 3,
            "start": {"year": 2020, "month_of_year": 1, "day_of_month": 1,
                      "hour_of_day": 6, "hour_of_day_decimal": 0.5},
            "dur": {"seconds": 90}}},
    "c12_nominal_bounded_far_anchor": {
        "op": "iterate", "desc": {
            "mode": "gregorian", "fmt": 4, "reps": 2,
            "end": {"year": 2016, "month_of_year": 8, "day_of_month": 1,
                    "hour_of_day": 0, "minute_of_hour": 59,
                    "second_of_minute": 0},
            "dur": {"months": 1, "days": 2}}},
}


class SeriesLog:
    def __init__(self, ctx, repo, rec):
        self.ctx, self.repo, self.rec = ctx, repo, rec
        self.mode = R.canon(repo.CALENDAR.mode)
        self.points = []
        self.done = False

    def add(self, p):
        if len(self.points) < 400:
            self.points.append(p)

    def finish(self, complete):
        if self.done:
            return
        self.done = True
        ctx, rec, mode = self.ctx, self.rec, self.mode
        pts = self.points
        if rec._min_point is not None or rec._max_point is not None:
            return
        anchors = [x for x in (rec._start_point, rec._end_point)
                   if x is not None]
        d0 = rec._duration
        nominal0 = d0 is not None and not R.dur_is_exact(d0)
        if any(p._truncated for p in pts) or \
                any(x._truncated for x in anchors):
            return
        if any(not R.tp_is_integral(x) for x in list(pts) + anchors):
            return self.finish_decimal(complete, anchors, d0, nominal0)
        if any((x._hour_of_day == 24 and nominal0) for x in anchors):
            return      # (24:00 anchors: exact intervals only, R2c)
        if not all(R.tp_valid(mode, x) for x in anchors):
            return      # (anchors that are no dates of the active mode)
        for p in pts:
            if not R.tp_valid(mode, p):
                ctx.violation(
                    "series.invalid-point", "recurrence %s yielded %r, which "
                    "is not a date-time of the %s calendar (points %s)" % (
                        _rec_key(rec), R.tp_key(p), mode,
                        [R.tp_key(q) for q in pts[:5]]),
                    rec_id_is_case=ctx.case_rec_id == id(rec))
                return
        ctx.ev("series.checked")
        is_case = ctx.case_rec_id == id(rec)
        n = rec._repetitions
        d = rec._duration
        reverse = rec._start_point is None
        single = n == 1 or d is None or not d
        tag = "fmt%s/%s/%s" % (rec._format_number,
                               "single" if single else (
                                   "bounded" if n else "unbounded"),
                               "nominal" if (d is not None and not
                                             R.dur_is_exact(d)) else "exact")

        def bad(kind, msg):
            ctx.violation("series." + kind, "%s: %s; recurrence %s yielded "
                          "%s" % (tag, msg, _rec_key(rec),
                                  [R.tp_key(p) for p in pts[:6]]),
                          rec_id_is_case=is_case)
        if single:
            anchor = rec._start_point if rec._start_point is not None \
                else rec._end_point
            if complete and (len(pts) != 1 or not _same(pts[0], anchor)):
                bad("single", "one repetition / zero interval must yield "
                    "exactly the anchor")
            else:
                ctx.cls(tag)
            return
        if not pts:
            if complete:
                bad("empty", "no point yielded")
            return
        first = rec._end_point if reverse else rec._start_point
        if not _same(pts[0], first):
            return bad("first", "first point is not the %s anchor" % (
                "end" if reverse else "start"))
        if not R.dur_is_integral(d):
            return
        dt = R.dur_tuple(d, -1 if reverse else 1)
        for prev, nxt in zip(pts, pts[1:]):
            want = R.pt_add(mode, R.pt_of(prev), dt)
            if not R.pt_same_fields(want, nxt):
                return bad("step", "after %r comes %r, reference step gives "
                           "%r" % (R.tp_key(prev), R.tp_key(nxt),
                                   (want["date"], float(want["sod"]))))
        insts = [R.tp_instant(mode, p) for p in pts]
        mono = all((b < a) if reverse else (a < b)
                   for a, b in zip(insts, insts[1:]))
        if not mono:
            return bad("order", "points are not strictly %s" % (
                "decreasing" if reverse else "increasing"))
        if complete and n is not None:
            if len(pts) != n and len(pts) < 400:
                return bad("count", "%d repetitions but %d points" % (
                    n, len(pts)))
            given = ctx.case_given_anchor if is_case else None
            if given is not None and given not in insts:
                return bad("anchor-missing", "the given anchor is not among "
                           "the points")
        ctx.cls(tag)
        if len(pts) >= 2 and is_case:
            ctx.nontrivial(ctx.case_key)


def _finish_decimal(self, complete, anchors, d, nominal):
    """series whose anchor carries a decimal fraction (tolerance regime R1):
    exact intervals only; each step must have the interval's length, the
    order must be strict and the first point must be the anchor, all within
    TOL seconds; the number of points is compared too, and the one
    float-rounding outcome "the last point is dropped at the bound" is
    reported under its own kind"""
    ctx, rec, mode, pts = self.ctx, self.rec, self.mode, self.points
    TOL = F(1, 10 ** 5)
    if nominal or d is None or not d or rec._format_number == 1:
        return
    binary = False
    if not R.dur_is_integral(d):
        # an interval that is a binary fraction of a second (down to 2**-30;
        # a second-of-day below 86400 takes 17 bits, so such sums are exact
        # in a float's 53) on whole-second anchors: nothing is tolerated -
        # steps, count and anchor are decided exactly
        den = F(R.dur_len(d)).denominator
        given = rec._start_point if rec._format_number == 3 \
            else rec._end_point
        if den & (den - 1) or den > 2 ** 30 or \
                not R.tp_is_integral(given) or \
                given._second_of_minute is None:
            return
        binary = True
        TOL = F(0)
    if any(x._hour_of_day == 24 for x in anchors):
        return
    if any(not R.tp_valid(mode, p, slack=F(1, 10 ** 6)) for p in pts):
        return
    n = rec._repetitions
    if n == 1:
        return
    ctx.ev("series.checked-decimal")
    is_case = ctx.case_rec_id == id(rec)
    reverse = rec._start_point is None
    tag = "decimal/fmt%s/%s" % (rec._format_number,
                                "bounded" if n else "unbounded")

    def bad(kind, msg, **kw):
        ctx.violation("series." + kind, "%s: %s; recurrence %s yielded %s" % (
            tag, msg, _rec_key(rec), [R.tp_key(p) for p in pts[:6]]),
            rec_id_is_case=is_case, **kw)
    if not pts:
        if complete:
            bad("empty", "no point yielded")
        return
    first = rec._end_point if reverse else rec._start_point
    insts = [R.tp_instant(mode, p) for p in pts]
    if abs(insts[0] - R.tp_instant(mode, first)) > TOL:
        return bad("first", "first point is not the anchor")
    step = R.dur_len(d) * (-1 if reverse else 1)
    for a, b in zip(insts, insts[1:]):
        if abs((b - a) - step) > TOL:
            return bad("step", "consecutive points are %s s apart, the "
                       "interval is %s s" % (float(b - a), float(step)))
    if complete and n is not None and len(pts) < 400:
        if len(pts) == n - 1 and rec._end_point is not None and not binary:
            # the library's own next step lands beyond the end bound by
            # float rounding only (less than TOL)?
            try:
                nxt = pts[-1] + d
                excess = R.tp_instant(mode, nxt) - \
                    R.tp_instant(mode, rec._end_point)
            except Exception:
                excess = None
            if excess is not None and 0 < excess <= TOL:
                return bad("count-decimal", "%d repetitions but %d points: "
                           "the last step lands %.3g s beyond the end bound "
                           "by float rounding and is dropped" % (
                               n, len(pts), float(excess)),
                           float_drop=True)
        if len(pts) != n:
            return bad("count", "%d repetitions but %d points" % (
                n, len(pts)))
    ctx.cls(tag + ("/binary-fraction-interval" if binary else ""))
    if len(pts) >= 2 and is_case:
        ctx.nontrivial(ctx.case_key)


SeriesLog.finish_decimal = _finish_decimal


def _same(p, q):
    return R.tp_key(p) == R.tp_key(q)


def _rec_key(rec):
    def k(x):
        return None if x is None else R.tp_key(x)
    return (rec._format_number, rec._repetitions, k(rec._start_point),
            k(rec._end_point),
            None if rec._duration is None else R.dur_key(rec._duration))


def install(ctx, repo, probes):
    TR = repo.TimeRecurrence
    orig_iter = TR.__dict__["__iter__"]
    ctx.case_rec_id = None
    ctx.case_given_anchor = None
    ctx.case_key = None

    def monitored_iter(self):
        if ctx.in_oracle:
            yield from orig_iter(self)
            return
        log = SeriesLog(ctx, repo, self)
        complete = False
        try:
            for p in orig_iter(self):
                log.add(p)
                yield p
            complete = True
        finally:
            ctx.in_oracle += 1
            try:
                log.finish(complete)
            finally:
                ctx.in_oracle -= 1
    probes.set(TR, "__iter__", monitored_iter)

    def post_init(snap, args, kwargs, res, exc):
        rec = args[0]
        if exc is not None:
            if ctx.expect_init_ok:
                ctx.violation("init.raised", "constructing %r raised %r" % (
                    ctx.case, exc))
            return
        mode = R.canon(repo.CALENDAR.mode)
        s, e, d = rec._start_point, rec._end_point, rec._duration
        if any(x is not None and (x._truncated or not R.tp_is_integral(x))
               for x in (s, e)):
            return
        ctx.ev("init.post")
        if rec._format_number == 1 and d is not None and s is not None:
            sp = rec._second_point
            want = R.tp_instant(mode, sp) - R.tp_instant(mode, s)
            if not R.dur_is_exact(d) or R.dur_len(d) != want:
                ctx.violation("init.interval", "interval of %s derived as "
                              "%r, reference %s s" % (_rec_key(rec),
                                                      R.dur_key(d), want))
    probes.wrap(TR, "__init__", post_init)
    ctx.expect_init_ok = False
    for fmt in (1, 3, 4):
        for kind in ("single", "bounded", "unbounded"):
            for iv in ("exact", "nominal"):
                if fmt == 1 and iv == "nominal":
                    continue
                if kind == "single" and iv == "nominal":
                    continue
                ctx.target("fmt%d/%s/%s" % (fmt, kind, iv))
    for mode in R.MODES:
        ctx.target("mode/" + mode)
    ctx.target("anchor-24:00", "reentrant-iteration",
               "copied/copy", "copied/deepcopy", "copied/pickle",
               "single/three-notations", "longwalk", "shifted/r+d",
               "shifted/d+r",
               "shifted/r-d")
    for fmt in (3, 4):
        for kind in ("bounded", "unbounded"):
            ctx.target("decimal/fmt%d/%s" % (fmt, kind))
        ctx.target("decimal/fmt%d/bounded/binary-fraction-interval" % fmt)


def given_anchor_instant(desc):
    mode = desc["mode"]
    a = desc["end"] if desc["fmt"] == 4 else desc["start"]
    rep = "cal" if "month_of_year" in a else (
        "ord" if "day_of_year" in a else "week")
    date = {"cal": lambda: (a["year"], a["month_of_year"],
                            a["day_of_month"]),
            "ord": lambda: (a["year"], a["day_of_year"]),
            "week": lambda: (a["year"], a["week_of_year"],
                             a["day_of_week"])}[rep]()
    sod = a["hour_of_day"] * 3600 + a.get("minute_of_hour", 0) * 60 + \
        a.get("second_of_minute", 0)
    off = a.get("time_zone_hour", 0) * 60 + a.get("time_zone_minute", 0)
    return R.date_to_rd(mode, rep, date) * 86400 + sod - off * 60


def consume(rec, limit):
    out = []
    for p in rec:
        out.append(p)
        if len(out) >= limit:
            break
    return out


def run_case(ctx, repo, case):
    desc = case["desc"]
    mode = desc["mode"]
    repo.set_mode(mode, case)
    try:
        ctx.expect_init_ok = True
        try:
            rec = recgen.build(repo, desc)
        except ValueError:
            return
        finally:
            ctx.expect_init_ok = False
        ctx.case_rec_id = id(rec)
        ctx.case_given_anchor = None if case.get("decimal") else \
            given_anchor_instant(desc)
        # the object must carry what was asked for (the series checker reads
        # repetitions and interval from the object)
        ctx.ev("ctor.check")
        single = recgen.is_single(desc)
        want_reps = 1 if single else desc["reps"]
        y, m, secs = recgen.interval_tuple(desc)
        d = rec._duration
        got_iv = None if d is None else (R.dur_nominal(d) + (R.dur_len(d),))
        want_iv = None if single else (y, m, secs)
        if rec._repetitions != want_reps or got_iv != want_iv or \
                rec._format_number != desc["fmt"]:
            ctx.violation("ctor.fields", "recurrence built from %r carries "
                          "repetitions=%r interval=%r notation=%r" % (
                              desc, rec._repetitions, got_iv,
                              rec._format_number))
        ctx.case_key = ("rec", repr(sorted(desc.items(), key=str)))
        ctx.cls("mode/" + mode)
        if case["op"] == "iterate":
            limit = 12 if desc["reps"] is None and \
                not recgen.is_single(desc) else 1000
            consume(rec, limit)
            how = case.get("copied")
            if how:
                # a copy of the value (copy / deepcopy / pickle round trip)
                # is the same series: same checker, and equal to the original
                ctx.ev("copied-series")
                try:
                    rec2 = {"copy": copy.copy, "deepcopy": copy.deepcopy,
                            "pickle": lambda r: pickle.loads(pickle.dumps(r))
                            }[how](rec)
                except Exception as exc:
                    ctx.violation("copied.raised", "%s of the recurrence "
                                  "built from %r raised %r" % (how, desc, exc))
                    return
                ctx.case_rec_id = id(rec2)
                consume(rec2, limit)
                if (rec2 == rec) is not True or hash(rec2) != hash(rec):
                    ctx.violation("copied.differs", "%s of the recurrence "
                                  "built from %r is not equal to it" % (
                                      how, desc))
                else:
                    ctx.cls("copied/" + how)
        elif case["op"] == "reentrant":
            # iteration is a pure view: pausing one pass while another runs
            # must not change what any later pass yields
            ctx.ev("reentrant")
            first = [R.tp_key(p) for p in consume(rec, 60)]
            # interleave on a FRESH object that has never completed a pass
            rec = recgen.build(repo, desc)
            ctx.case_rec_id = id(rec)
            it = iter(rec)
            head = []
            for _ in range(min(2, len(first))):
                head.append(R.tp_key(next(it)))
            if first:
                rec.get_is_valid(recgen.build(repo, desc)._end_point
                                 or rec._start_point)
            mid = [R.tp_key(p) for p in consume(rec, 60)]
            rest = [R.tp_key(p) for p in itertools.islice(it, 60)]
            for p in consume(rec, 3):
                if rec._end_point is not None:
                    rec.get_is_valid(rec._end_point)
            again = [R.tp_key(p) for p in consume(rec, 60)]
            if mid != first or again != first or (head + rest)[:60] != first:
                ctx.violation("reentrant", "interleaved iterations of one "
                              "recurrence changed its series: first pass %d "
                              "points, pass during a paused iteration %d, "
                              "resumed pass %d, later pass %d; %r" % (
                                  len(first), len(mid), len(head + rest),
                                  len(again), desc))
            else:
                ctx.cls("reentrant-iteration")
        elif case["op"] == "longwalk":
            # an unbounded series has no last point: far along one single
            # iteration the k-th point is still anchor +- k * interval
            ctx.ev("longwalk")
            k = case["count"]
            last = None
            n_seen = 0
            ctx.in_oracle += 1      # (the series log keeps 400 points only)
            try:
                for p in rec:
                    last = p
                    n_seen += 1
                    if n_seen >= k:
                        break
            finally:
                ctx.in_oracle -= 1
            step = recgen._len(desc["dur"]) * (-1 if desc["fmt"] == 4 else 1)
            want = ctx.case_given_anchor + (k - 1) * step
            if n_seen != k or R.tp_instant(mode, last) != want:
                ctx.violation("series.longwalk", "an unbounded recurrence "
                              "%r yielded %d points when %d were taken; the "
                              "last one is %r" % (
                                  desc, n_seen, k,
                                  None if last is None else R.tp_key(last)))
            else:
                ctx.cls("longwalk")
        elif case["op"] == "shifted":
            # a recurrence that comes out of r + d / d + r / r - d is a
            # recurrence like any other: n points, steps, anchor
            ctx.ev("shifted")
            sh = repo.dur(case["shift"])
            how = case["how"]
            try:
                r2 = rec + sh if how == "r+d" else (
                    sh + rec if how == "d+r" else rec - sh)
            except (ValueError, OverflowError):
                # (a month/year shift may move the two anchors of a
                # start/second-point pair written in different
                # representations by different amounts and invert them: the
                # constructor refuses that - and, for a year below 0 written
                # without expanded digits, fails to print its own message:
                # OverflowError from str(); shifting is C14's subject and
                # only for exact shifts)
                return
            ctx.case_rec_id = id(r2)
            ctx.case_given_anchor = None
            pts2 = consume(r2, 1000 if desc["reps"] else 12)
            if pts2:
                ctx.cls("shifted/" + how)
        elif case["op"] == "single":
            # one repetition: whatever the notation (and whatever second
            # point or interval is spelled) the series is exactly the anchor
            ctx.ev("single-notations")
            a = desc["start"]
            recs = [("start/duration", rec)]
            for delta in (case["delta"], {k: -v for k, v in
                                          case["delta"].items()}):
                d1 = {"mode": mode, "fmt": 1, "reps": 1, "start": a,
                      "delta": delta, "second_rep": case["second_rep"],
                      "second_off": case["second_off"]}
                recs.append(("start/second-point %r" % (delta,),
                             recgen.build(repo, d1)))
            recs.append(("duration/end", repo.TimeRecurrence(
                repetitions=1, end_point=repo.tp(a),
                duration=repo.dur(desc["dur"]))))
            anchor = R.tp_key(repo.tp(a))
            prob = None
            for name, r in recs:
                got = [R.tp_key(p) for p in consume(r, 5)]
                if got != [anchor]:
                    prob = "%s yields %r, not exactly the anchor" % (
                        name, got)
                elif (r == rec) is not True or (rec == r) is not True:
                    prob = "%s does not compare equal to start/duration" % (
                        name,)
                elif hash(r) != hash(rec):
                    prob = "%s hashes differently" % (name,)
                if prob:
                    break
            if prob:
                ctx.violation("single-notations", "%s for %r" % (prob, case))
            else:
                ctx.cls("single/three-notations")
        elif case["op"] == "three":
            # the three notations of one finite exact series
            n = desc["reps"]
            ctx.ev("three-notations")
            pts3 = consume(rec, 1000)
            d1 = dict(desc)
            d1.update({"fmt": 1, "delta": desc["dur"],
                       "second_rep": case["second_rep"],
                       "second_off": case["second_off"]})
            r1 = recgen.build(repo, d1)
            pts1 = consume(r1, 1000)
            end = pts3[-1] if pts3 else None
            if end is not None and R.tp_is_integral(end):
                # the given end spelled in the other offset / representation
                # (an exact interval: the series does not depend on it)
                end = repo.tp(gen.tp_from_instant(
                    __import__("random").Random(n), mode,
                    int(R.tp_instant(mode, end)), rep=case["second_rep"],
                    offset=tuple(case["second_off"]), allow_2400=False))
            r4 = repo.TimeRecurrence(repetitions=n, end_point=end,
                                     duration=repo.dur(desc["dur"]))
            pts4 = consume(r4, 1000)
            i3 = [R.tp_instant(mode, p) for p in pts3]
            want = [ctx.case_given_anchor + i * recgen._len(desc["dur"])
                    for i in range(n)]
            prob = None
            if i3 != want:
                prob = "start/duration series differs from anchor + i*d"
            elif [R.tp_instant(mode, p) for p in pts1] != want:
                prob = "start/second-point series differs"
            elif [R.tp_instant(mode, p) for p in pts4] != want:
                prob = "duration/end series differs"
            elif not ((rec == r1) is True and (r1 == r4) is True and
                      (rec == r4) is True):
                prob = "the three notations do not compare equal"
            elif not (hash(rec) == hash(r1) == hash(r4)):
                prob = "the three notations hash differently"
            if prob:
                ctx.violation("three-notations", "%s for %r" % (prob, desc))
    finally:
        ctx.case_rec_id = None
        repo.set_mode("gregorian")


def workload(ctx, repo):
    rng = ctx.rng
    n = 3500 if ctx.tier == "quick" else 12000
    # deterministic coverage of every (notation, boundedness, interval) class
    k = 0
    for mode in R.MODES:
        for fmt in (1, 3, 4):
            for reps in (None, 1, 2, 3, 5):
                for iv in ("exact", "nominal"):
                    desc = recgen.make(rng, mode, fmt=fmt, reps=reps,
                                       interval=iv)
                    case = {"op": "iterate", "desc": desc}
                    ctx.case = case
                    run_case(ctx, repo, case)
    j = 0
    for mode in R.MODES:
        stride = 4 if ctx.tier == "quick" else 1
        for desc in recgen.clamp_descs(mode):
            j += 1
            a = desc.get("start") or desc.get("end")
            must = desc["reps"] is None and (
                ("week_of_year" in a and "years" in desc["dur"]) or
                (desc["dur"] == {"months": 12} and "day_of_month" in a))
            if must:
                if not ctx.mine(j):
                    continue
            elif (j + ctx.seed) % stride or not ctx.mine(j // stride):
                continue
            case = {"op": "iterate", "desc": desc}
            ctx.case = case
            run_case(ctx, repo, case)
    if ctx.worker == 0:
        for fmt, dur in ((3, {"seconds": 1}), (4, {"minutes": 1})):
            a = gen.tp_from_instant(rng, "gregorian", 730000 * 86400 + 5,
                                    rep="cal", offset=(0, 0),
                                    allow_2400=False)
            desc = {"mode": "gregorian", "fmt": fmt, "reps": None, "dur": dur}
            desc["start" if fmt == 3 else "end"] = a
            case = {"op": "longwalk", "desc": desc,
                    "count": 100003 if fmt == 3 else 100001}
            ctx.case = case
            run_case(ctx, repo, case)
    # copies of single-point and ordinary series in both one-anchor notations
    if ctx.worker == 0:
        for fmt in (3, 4):
            for reps, dur in ((1, {"days": 1}), (4, {"seconds": 0}),
                              (1, {"months": 1}), (3, {"hours": 6}),
                              (None, {"days": 2})):
                for how in ("copy", "deepcopy", "pickle"):
                    a = {"year": 2020, "month_of_year": 2, "day_of_month": 29,
                         "hour_of_day": 6, "minute_of_hour": 0,
                         "second_of_minute": 0, "time_zone_hour": 0,
                         "time_zone_minute": 0}
                    desc = {"mode": "gregorian", "fmt": fmt, "reps": reps,
                            "dur": dur}
                    desc["start" if fmt == 3 else "end"] = a
                    case = {"op": "iterate", "desc": desc, "copied": how}
                    ctx.case = case
                    ctx.ev("cases.copied-series")
                    run_case(ctx, repo, case)
    # the three notations with spellings 26 hours of offset apart (the local
    # dates of one instant are then up to two days apart)
    if ctx.worker == 0:
        for mode in R.MODES:
            for hh, dur in ((0, {"hours": 1}), (1, {"minutes": 30}),
                            (23, {"hours": 12}), (11, {"days": 1})):
                for a_off, b_off in (((14, 0), (-12, 0)), ((-12, 0), (14, 0)),
                                     ((99, 0), (-99, 0))):
                    start = gen.date_kwargs(mode, "cal", R.ymd_to_rd(
                        mode, 2020, 1, 3))
                    start.update({"hour_of_day": hh, "minute_of_hour": 30,
                                  "second_of_minute": 0})
                    start.update(gen.zone_kwargs(a_off))
                    desc = {"mode": mode, "fmt": 3, "reps": 3,
                            "start": start, "dur": dur}
                    case = {"op": "three", "desc": desc, "second_rep": "cal",
                            "second_off": list(b_off)}
                    ctx.case = case
                    ctx.ev("cases.far-offset-notations")
                    run_case(ctx, repo, case)
    for k in range(n // 20):
        # intervals far below a second (binary fractions: exact in floats)
        mode = R.MODES[k % 4] if k % 2 else "gregorian"
        desc = recgen.make(rng, mode, fmt=rng.choice((3, 4)),
                           reps=rng.choice((2, 3, 5, 9)),
                           interval={"seconds": 2.0 ** -rng.choice(
                               (1, 10, 20, 28, 30, 30))})
        case = {"op": "iterate", "desc": desc, "decimal": True}
        ctx.case = case
        ctx.ev("cases.tiny-interval")
        run_case(ctx, repo, case)
    for k in range(n // 6):
        # anchors spelled with a decimal fraction (hh,h / hh:mm,m / ss,s)
        mode = R.MODES[k % 4] if k % 2 else "gregorian"
        desc = recgen.make(rng, mode, fmt=rng.choice((3, 4)),
                           reps=rng.choice((None, 2, 3, 5, 9)),
                           interval="exact")
        a = desc["end"] if desc["fmt"] == 4 else desc["start"]
        for key in ("hour_of_day", "minute_of_hour", "second_of_minute"):
            a.pop(key, None)
        a.update(gen.time_kwargs(rng, rng.choice(("hm", "h", "hmsf")),
                                 integral=False))
        case = {"op": "iterate", "desc": desc, "decimal": True}
        ctx.case = case
        run_case(ctx, repo, case)
    for k in range(n):
        mode = R.MODES[k % 4] if k % 2 else "gregorian"
        if k % 8 == 0:
            reps = rng.choice((2, 3, 5, 9, 50))
            desc = recgen.make(rng, mode, fmt=3, reps=reps, interval="exact")
            if recgen.is_single(desc):
                continue
            case = {"op": "three", "desc": desc,
                    "second_rep": rng.choice(gen.REPS),
                    "second_off": list(gen.rand_offset(rng))}
        elif k % 16 == 14:
            desc = recgen.make(rng, mode, reps=rng.choice((2, 3, 5, 9, None)),
                               interval="exact")
            if k % 32 == 14:
                # mid-month anchors: a month/year shift then moves every
                # point alike unless the series straddles a clamp
                a = desc["end"] if desc["fmt"] == 4 else desc["start"]
                if "month_of_year" in a:
                    a.update(month_of_year=1, day_of_month=15)
                    if "dur" in desc:
                        desc["dur"] = {"days": 10}
            case = {"op": "shifted", "desc": desc,
                    "how": rng.choice(("r+d", "d+r", "r-d")),
                    "shift": rng.choice(({"months": 1}, {"years": 1},
                                         {"months": -1}, {"days": 3},
                                         {"years": 1, "months": 1},
                                         {"hours": 36}))}
        elif k % 16 == 6:
            desc = recgen.make(rng, mode, fmt=3, reps=1, interval="exact")
            if not recgen._len(desc["dur"]):
                continue
            case = {"op": "single", "desc": desc, "delta": desc["dur"],
                    "second_rep": rng.choice(gen.REPS),
                    "second_off": list(gen.rand_offset(rng))}
        elif k % 8 == 4:
            desc = recgen.make(rng, mode, reps=rng.choice((2, 3, 5, 9)),
                               interval="exact")
            case = {"op": "reentrant", "desc": desc}
            ctx.case = case
            run_case(ctx, repo, case)
            continue
        else:
            desc = recgen.make(rng, mode)
            if k % 6 == 1 and not recgen.is_nominal(desc):
                # the anchor spelled as 24:00 of its day (exact intervals)
                a = desc["end"] if desc["fmt"] == 4 else desc["start"]
                for key in ("minute_of_hour", "second_of_minute"):
                    a.pop(key, None)
                a["hour_of_day"] = 24
                ctx.cls("anchor-24:00")
            case = {"op": "iterate", "desc": desc}
            if k % 5 == 2:
                case["copied"] = ("copy", "deepcopy", "pickle")[(k // 5) % 3]
        ctx.case = case
        if k % 401 == 0:
            ctx.sample(case)
        run_case(ctx, repo, case)
