"""C02 - comparison and hashing of time points follow the timeline.

Online monitor: every rich comparison / hash / point-minus-point call is
compared with the order of reference instants.  Offline checker: the order
graph built from ALL recorded comparison events (no reference involved)
must be a consistent strict weak order: symmetric ==, complementary !=,
<= / >= the unions, exactly one of <,==,>, no strict cycle, one hash per
equality class."""
import collections
from fractions import Fraction as F

from .. import gen
from .. import refmodel as R

RULE = ("cases = clusters of 3-6 TimePoints at or within {0, +-1 s, +-1 min, "
        "+-1 h, +-1 D} of a base instant, each spelled in a random "
        "representation / UTC offset / precision form (24:00 of the previous "
        "day when at midnight); all ordered pairs x six operators, hash, "
        "a-b, sorted(), set(); non-trivial = ordered pair whose two "
        "spellings differ (representation, offset or form) and whose "
        "instants are equal or at most one day apart; distinct by (mode, "
        "a-fields, b-fields)")
RUN_REPO_SUITE = True   # thorough tier: repo tests under these monitors
DECIDING = ["cmp.post", "hash.post", "sub.sign", "offline.pairs"]
MIN_EVALS = {"cmp.post": 20000, "hash.post": 2000, "sub.sign": 2000}
ASSUMPTIONS = [
    "exact regime: both operands have integral time fields -> comparison "
    "results must equal the order of reference instants; tolerance regime: "
    "demanded only when the instants differ by more than 1e-6 s; hash "
    "agreement demanded in the exact regime",
]
TOL = F(1, 10**6)
OPS = ("eq", "ne", "lt", "le", "gt", "ge")


def expected(op, ia, ib):
    return {"eq": ia == ib, "ne": ia != ib, "lt": ia < ib, "le": ia <= ib,
            "gt": ia > ib, "ge": ia >= ib}[op]


def pair_exact(ka, inta, kb, intb):
    """R1: both operands integral and re-zoning one to the other's offset
    stays in integers (a decimal-hour form cannot absorb offset minutes
    exactly)"""
    if not (inta and intb):
        return False
    a, b = ka[1], kb[1]
    hform = (a[3] is None and a[4] is None) or (b[3] is None and b[4] is None)
    if hform and ((a[5] * 60 + a[6]) - (b[5] * 60 + b[6])) % 60:
        return False
    # a decimal-minute form absorbs whole minutes exactly; nothing else to ask
    return True


def hash_exact(k, integral):
    a = k[1]
    if not integral:
        return False
    if a[3] is None and a[4] is None and a[6] % 60:
        return False
    return True


def install(ctx, repo, probes):
    TP = repo.TimePoint
    ctx.events = []          # (mode, keyA, keyB, op, result)
    ctx.hash_events = {}     # (mode, key) -> hash
    ctx.inst_of = {}         # (mode, key) -> (instant, integral)

    def info(mode, p):
        k = (mode, R.tp_key(p))
        v = ctx.inst_of.get(k)
        if v is None:
            if p._truncated or not R.tp_valid(mode, p):
                v = (None, False)
            else:
                v = (R.tp_instant(mode, p), R.tp_is_dyadic(p))
            ctx.inst_of[k] = v
        return k, v

    ctx.pair_exact = pair_exact
    ctx.hash_exact = hash_exact

    def make_post(op):
        def post(snap, args, kwargs, res, exc):
            a, b = args[0], args[1]
            if not isinstance(b, TP) or a._truncated or b._truncated:
                return
            mode = R.canon(repo.CALENDAR.mode)
            ka, (ia, inta) = info(mode, a)
            kb, (ib, intb) = info(mode, b)
            if ia is None or ib is None:
                return
            ctx.ev("cmp.post")
            if exc is not None:
                if (isinstance(exc, RecursionError) and
                        not pair_exact(ka, inta, kb, intb) and
                        abs(ia - ib) <= TOL):
                    # the stack of a runaway a-b recursion ran out here; the
                    # operands are float-equal (tolerance regime): counted,
                    # decided by C04's check
                    ctx.extra["float_edge_observations"] = ctx.extra.get(
                        "float_edge_observations", 0) + 1
                    return
                ctx.violation("cmp.raised", "%s raised %r on %r, %r" % (
                    op, exc, ka, kb), a=ka, b=kb)
                return
            ctx.events.append((ka, kb, op, res))
            exact = pair_exact(ka, inta, kb, intb)
            if not exact and abs(ia - ib) <= TOL:
                ctx.ev("cmp.tolerance_skip")
                return
            want = expected(op, ia, ib)
            if res is not want:
                ctx.violation(
                    "cmp.%s" % op, "%r %s %r returned %r, instants differ by "
                    "%s s (mode %s)" % (ka[1], op, kb[1], res,
                                        float(ia - ib), mode),
                    a=ka, b=kb, op=op, result=res)
            if ia == ib and ka != kb:
                ctx.cls("equal-instant-different-spelling")
                if a._hour_of_day == 24 or b._hour_of_day == 24:
                    ctx.cls("equal-instant-24:00")
        return post

    for op in ("eq", "lt", "le", "gt", "ge"):
        probes.wrap(TP, "__%s__" % op, make_post(op))

    def ne(self, other):
        return object.__ne__(self, other)
    probes.set(TP, "__ne__", ne)
    probes.wrap(TP, "__ne__", make_post("ne"))

    def post_hash(snap, args, kwargs, res, exc):
        p = args[0]
        if p._truncated:
            return
        mode = R.canon(repo.CALENDAR.mode)
        k, (inst, integral) = info(mode, p)
        if inst is None:
            return
        ctx.ev("hash.post")
        if exc is not None:
            ctx.violation("hash.raised", "hash raised %r on %r" % (exc, k))
            return
        ctx.hash_events[k] = res
        if hash_exact(k, integral):
            slot = ctx.hash_by_instant.setdefault((mode, inst), (res, k))
            if slot[0] != res:
                ctx.violation(
                    "hash.differs", "equal instants hash differently: %r "
                    "-> %d but %r -> %d (mode %s)" % (
                        slot[1][1], slot[0], k[1], res, mode),
                    a=slot[1], b=k)
    ctx.hash_by_instant = {}
    probes.wrap(TP, "__hash__", post_hash)

    def post_sub(snap, args, kwargs, res, exc):
        a, b = args[0], args[1]
        if not isinstance(b, TP) or a._truncated or b._truncated:
            return
        mode = R.canon(repo.CALENDAR.mode)
        ka, (ia, inta) = info(mode, a)
        kb, (ib, intb) = info(mode, b)
        if ia is None or ib is None:
            return
        ctx.ev("sub.sign")
        if exc is not None:
            if (isinstance(exc, RecursionError) and
                    not pair_exact(ka, inta, kb, intb) and
                    abs(ia - ib) <= TOL):
                ctx.extra["float_edge_observations"] = ctx.extra.get(
                    "float_edge_observations", 0) + 1
                return
            if not getattr(exc, "_rtv_seen", False):
                try:
                    exc._rtv_seen = True
                except Exception:
                    pass
                ctx.violation("sub.raised", "%r - %r raised %s (mode %s)" % (
                    ka[1], kb[1], type(exc).__name__, mode), a=ka, b=kb)
            return
        if not pair_exact(ka, inta, kb, intb) and abs(ia - ib) <= TOL:
            return
        length = R.dur_len(res)
        sg = (length > 0) - (length < 0)
        want = (ia > ib) - (ia < ib)
        if sg != want or (res._years or res._months):
            ctx.violation("sub.sign", "sign of %r - %r is %d, instants say "
                          "%d (result %r, mode %s)" % (
                              ka[1], kb[1], sg, want, R.dur_key(res), mode),
                          a=ka, b=kb)
    probes.wrap(TP, "__sub__", post_sub)
    ctx.target("equal-instant-different-spelling", "equal-instant-24:00")
    for mode in R.MODES:
        ctx.target("cluster/%s" % mode)


def run_case(ctx, repo, case):
    mode = case["mode"]
    repo.set_mode(mode, case)
    try:
        pts = [repo.tp(kw) for kw in case["points"]]
        ctx.cls("cluster/%s" % mode)
        for i, a in enumerate(pts):
            hash(a)
            for j, b in enumerate(pts):
                a == b
                a != b
                a < b
                a <= b
                a > b
                a >= b
                if i != j:
                    try:
                        a - b
                    except (ValueError, RecursionError, ArithmeticError):
                        pass  # reported by the monitor on __sub__
                    ka, kb = R.tp_key(a), R.tp_key(b)
                    if ka != kb:
                        ctx.nontrivial((mode, ka, kb))
        # points derived by arithmetic from already-hashed points must
        # compare and hash like freshly built ones at the same instant
        if all(R.tp_is_integral(p) for p in pts) and len(pts) >= 2:
            a, b = pts[0], pts[-1]
            if a._second_of_minute is not None and \
                    b._second_of_minute is not None:
                diff = int(R.tp_instant(mode, b) - R.tp_instant(mode, a))
                try:
                    q = a + repo.Duration(seconds=diff)
                    ctx.ev("derived")
                    hash(q)
                    q == b
                    b == q
                    q < b
                    q2 = (b - repo.Duration(seconds=diff))
                    hash(q2)
                    q2 == a
                except (ValueError, RecursionError):
                    pass
        # container behaviour, decided against the reference
        integral = all(R.tp_is_integral(p) for p in pts)
        if integral:
            # exact regime for the whole cluster (R1): a decimal-hour form
            # cannot absorb offset minutes exactly
            offs = [R.tp_offset_minutes(p) for p in pts]
            for p in pts:
                if p._minute_of_hour is None and p._second_of_minute is None:
                    if any((R.tp_offset_minutes(p) - o) % 60 for o in offs) \
                            or R.tp_offset_minutes(p) % 60:
                        integral = False
        if integral:
            insts = [R.tp_instant(mode, p) for p in pts]
            ctx.ev("containers")
            srt = sorted(pts)
            got = [R.tp_instant(mode, p) for p in srt]
            if got != sorted(insts):
                ctx.violation("sorted", "sorted() order %r differs from the "
                              "instants' order" % ([R.tp_key(p) for p in srt]
                                                   ,))
            if len(set(pts)) != len(set(insts)):
                ctx.violation("set", "set() kept %d members for %d distinct "
                              "instants: %r" % (
                                  len(set(pts)), len(set(insts)),
                                  [R.tp_key(p) for p in pts]))
            dct = {}
            for p in pts:
                dct[p] = dct.get(p, 0) + 1
            if sorted(dct.values()) != sorted(
                    collections.Counter(insts).values()):
                ctx.violation("dict", "dict keyed by points groups them "
                              "differently from their instants: %r" % (
                                  [R.tp_key(p) for p in pts],))
    finally:
        repo.set_mode("gregorian")


DELTAS = (0, 0, 0, 1, -1, 60, -60, 3600, -3600, 86400, -86400, 59, 86399,
          -86399, 3599, 900, -900, 1800, 30, -15, 2700)


def make_cluster(rng, mode, exact=True):
    y = gen.rand_year(rng, -3000, 11000)
    if rng.random() < 0.02:
        y = gen.huge_year(rng)
    rd = gen.rand_rd(rng, mode, y, bias=0.7)
    v = rng.random()
    if v < 0.5:
        sod = 0
    elif v < 0.7:
        sod = rng.choice((86399, 1, 43200, 3600, 82800))
    else:
        sod = rng.randrange(86400)
    base = rd * 86400 + sod
    pts = []
    for _ in range(rng.randint(3, 6)):
        inst = base + rng.choice(DELTAS)
        kw = gen.tp_from_instant(rng, mode, inst)
        if not exact and rng.random() < 0.5 and kw["hour_of_day"] != 24:
            # re-spell the time of day in a decimal form
            form = rng.choice(("hm", "h", "hmsf"))
            h, m, s = (kw["hour_of_day"], kw["minute_of_hour"],
                       kw["second_of_minute"])
            for k in ("hour_of_day", "minute_of_hour", "second_of_minute"):
                kw.pop(k)
            if form == "hmsf":
                kw.update(hour_of_day=h, minute_of_hour=m, second_of_minute=s,
                          second_of_minute_decimal=rng.choice(
                              (0.5, 0.25, 0.75, 0.000001, 0.999999,
                               2.0 ** -10, 1 - 2.0 ** -12)))
            elif form == "hm":
                kw.update(hour_of_day=h, minute_of_hour=m,
                          minute_of_hour_decimal=s / 60.0)
            else:
                kw.update(hour_of_day=h,
                          hour_of_day_decimal=(m * 60 + s) / 3600.0)
        pts.append(kw)
    return {"op": "cluster", "mode": mode, "points": pts}


def binary_fraction_cluster(rng, mode):
    """one instant with a fine binary fraction of a second, spelled as
    decimal hours (k/2048 h), decimal minutes and decimal seconds, beside
    neighbours a binary fraction of a microsecond away (exact in floats)"""
    y = gen.rand_year(rng, -500, 9000)
    rd = gen.rand_rd(rng, mode, y, bias=0.5)
    h = rng.randrange(24)
    k = rng.randrange(1, 2048)
    secs = F(k * 3600, 2048)               # exact: 3600/2048 = 225/128
    m, s = divmod(secs, 60)
    off = rng.choice(((0, 0), (1, 0), (-5, 0), (0, 0)))
    pts = []
    for rep in rng.sample(gen.REPS, 2):
        kw = gen.date_kwargs(mode, rep, rd)
        kw.update(gen.zone_kwargs((0, 0)))
        kw.update(hour_of_day=h, hour_of_day_decimal=k / 2048.0)
        pts.append(kw)
    kw = gen.date_kwargs(mode, rng.choice(gen.REPS), rd)
    kw.update(gen.zone_kwargs((0, 0)))
    kw.update(hour_of_day=h, minute_of_hour=int(m),
              second_of_minute=int(s),
              second_of_minute_decimal=float(s - int(s)))
    pts.append(kw)
    kw = gen.date_kwargs(mode, rng.choice(gen.REPS), rd)
    kw.update(gen.zone_kwargs((0, 0)))
    kw.update(hour_of_day=h, minute_of_hour=int(m),
              minute_of_hour_decimal=float(s / 60)
              if (s / 60).denominator <= 4096 and
              not (s / 60).denominator & ((s / 60).denominator - 1)
              else 0.5)
    pts.append(kw)
    # neighbours 2**-34 h (0.21 us) and 2**-24 min later
    kw = dict(pts[0])
    kw["hour_of_day_decimal"] = k / 2048.0 + 2.0 ** -34
    pts.append(kw)
    kw = gen.date_kwargs(mode, rng.choice(gen.REPS), rd)
    kw.update(gen.zone_kwargs((0, 0)))
    kw.update(hour_of_day=h, minute_of_hour=int(m),
              minute_of_hour_decimal=2.0 ** -24)
    pts.append(kw)
    return {"op": "cluster", "mode": mode, "points": pts}


def boundary_clusters(rng, mode, years):
    """deterministic clusters at every month end of the given years: the
    last day spelled 24:00 (each representation, same and other offsets)
    against the next day's 00:00"""
    for y in years:
        y0 = R.days_before_year(mode, y)
        acc = 0
        for n in R.month_lengths(mode, y):
            acc += n
            last = y0 + acc - 1
            inst = (last + 1) * 86400
            pts = []
            for rep in gen.REPS:
                kw = gen.date_kwargs(mode, rep, last)
                kw.update({"hour_of_day": 24})
                pts.append(kw)
                kw2 = gen.date_kwargs(mode, rep, last + 1)
                kw2.update({"hour_of_day": 0, "minute_of_hour": 0,
                            "second_of_minute": 0})
                pts.append(kw2)
            off = gen.rand_offset(rng)
            pts.append(gen.tp_from_instant(rng, mode, inst, offset=off,
                                           allow_2400=False))
            pts.append(gen.tp_from_instant(rng, mode, inst - 1,
                                           allow_2400=False))
            kw = gen.date_kwargs(mode, rng.choice(gen.REPS), last)
            kw.update({"hour_of_day": 24, "minute_of_hour": 0,
                       "second_of_minute": 0})
            kw.update(gen.zone_kwargs((1, 0)))
            pts.append(kw)
            if mode == "gregorian":
                yield {"op": "cluster", "mode": mode, "points": pts}
            else:
                # once under each spelling of the mode's name
                for alias in (False, True):
                    yield {"op": "cluster", "mode": mode, "points": pts,
                           "alias": alias}


def workload(ctx, repo):
    rng = ctx.rng
    k = 0
    for mode in R.MODES:
        years = (2001, 2004) if ctx.tier == "quick" else \
            (2001, 2004, 1900, 2000, 0, -1, 9999)
        for case in boundary_clusters(rng, mode, years):
            k += 1
            if not ctx.mine(k):
                continue
            ctx.case = case
            run_case(ctx, repo, case)
    # one instant (and its neighbours a second and an hour away) spelled in
    # every offset of a grid: all ordered pairs get compared
    if ctx.worker == 0:
        for mode in R.MODES:
            mid = R.ymd_to_rd(mode, 2000, 6, 16) * 86400
            for inst, rep in ((730120 * 86400 + 1800, None),
                              (mid + 2 * 3600, "cal"), (mid + 12 * 3600, "cal"),
                              (mid + 22 * 3600 + 1800, "cal"),
                              (mid + 7200, "ord")):
                pts = [gen.tp_from_instant(
                    rng, mode, inst + (0, 0, 0, 1, 3600)[i % 5], rep=rep,
                    offset=off, allow_2400=False)
                    for i, off in enumerate(gen.OFFSET_GRID)]
                case = {"op": "cluster", "mode": mode, "points": pts}
                ctx.case = case
                ctx.ev("cases.offset-grid")
                run_case(ctx, repo, case)
            # the same point with and without formatting attributes (they
            # are no part of the value)
            base = gen.tp_from_instant(rng, mode, mid + 5000, rep="cal",
                                       offset=(1, 0), allow_2400=False)
            pts = [base, dict(base, dump_format="CCYYMMDDThhmmZ"),
                   dict(base, dump_format="CCYY-DDDThh:mm:ss+hh:mm",
                        truncated_dump_format="-DDDThh"),
                   dict(base, num_expanded_year_digits=2),
                   gen.tp_from_instant(rng, mode, mid + 5000, rep="week",
                                       offset=(-5, 0), allow_2400=False)]
            pts[-1]["dump_format"] = "CCYYWwwDThhZ"
            # ... and complete points whose truncated flag is given as 0
            pts.append(dict(gen.tp_from_instant(
                rng, mode, mid + 5000 - 2700, rep="ord", offset=(0, 0),
                allow_2400=False), truncated=0))
            pts.append(dict(gen.tp_from_instant(
                rng, mode, mid + 5000 + 900, rep="cal", offset=(-3, -30),
                allow_2400=False), truncated=0))
            case = {"op": "cluster", "mode": mode, "points": pts}
            ctx.case = case
            ctx.ev("cases.formatting-attributes")
            run_case(ctx, repo, case)
    # quarter hours either side of midnight, spelled with whole seconds in
    # UTC and as decimal hours in whole-hour offsets east and west (re-zoning
    # such an operand crosses midnight in either direction)
    if ctx.worker == 0:
        for mode in R.MODES:
            for y, doy in ((2020, 60), (2021, 1), (2019, 365), (2020, 70)):
                day0 = (R.days_before_year(mode, y) + doy - 1) * 86400
                pts = []
                for j, q in enumerate((-3, -2, -1, 1, 2, 3)):
                    inst = day0 + q * 900
                    pts.append(gen.tp_from_instant(
                        rng, mode, inst, rep=gen.REPS[j % 3], offset=(0, 0),
                        allow_2400=False))
                    for oh in (1, -1, 2, -3):
                        lrd, lsod = divmod(inst + oh * 3600, 86400)
                        kw = gen.date_kwargs(mode, gen.REPS[(j + oh) % 3],
                                             lrd)
                        kw.update(hour_of_day=lsod // 3600,
                                  hour_of_day_decimal=lsod % 3600 / 3600.0)
                        kw.update(gen.zone_kwargs((oh, 0)))
                        pts.append(kw)
                case = {"op": "cluster", "mode": mode, "points": pts}
                ctx.case = case
                ctx.ev("cases.decimal-hours-round-midnight")
                run_case(ctx, repo, case)
    n = 1500 if ctx.tier == "quick" else 6000
    for k in range(n // 10):
        case = binary_fraction_cluster(rng, R.MODES[k % 4])
        ctx.case = case
        ctx.ev("cases.binary-fraction")
        run_case(ctx, repo, case)
    for k in range(n):
        mode = R.MODES[k % 4] if k % 3 == 0 else "gregorian"
        case = make_cluster(rng, mode, exact=(k % 5 != 0))
        ctx.case = case
        if k % 211 == 0:
            ctx.sample(case)
        run_case(ctx, repo, case)


def finish(ctx, repo):
    """Offline order-graph checker over every recorded comparison event."""
    ctx.case = {"op": "offline-order-graph"}
    rel = collections.defaultdict(dict)   # (a,b) -> {op: result}
    for (ka, kb, op, res) in ctx.events:
        prev = rel[(ka, kb)].get(op)
        if prev is not None and prev is not res:
            ctx.violation("offline.unstable", "%r %s %r returned both %r and "
                          "%r" % (ka, op, kb, prev, res))
        rel[(ka, kb)][op] = res
    parent = {}

    def find(x):
        while parent.setdefault(x, x) != x:
            parent[x] = parent[parent[x]]
            x = parent[x]
        return x

    exact = {k for k, (inst, integral) in ctx.inst_of.items()
             if inst is not None and integral}
    npairs = 0
    strict = []
    for (ka, kb), ops in rel.items():
        if ka not in exact or kb not in exact:
            continue
        if not pair_exact(ka, True, kb, True):
            continue
        npairs += 1
        rev = rel.get((kb, ka), {})
        if "eq" in ops and "ne" in ops and ops["eq"] is ops["ne"]:
            ctx.violation("offline.ne", "== and != not complementary on "
                          "%r, %r" % (ka, kb))
        if "eq" in ops and "eq" in rev and ops["eq"] is not rev["eq"]:
            ctx.violation("offline.symmetry", "a==b is %r but b==a is %r "
                          "for %r, %r" % (ops["eq"], rev["eq"], ka, kb))
        if all(o in ops for o in ("lt", "eq", "gt")):
            if [ops["lt"], ops["eq"], ops["gt"]].count(True) != 1:
                ctx.violation("offline.trichotomy", "not exactly one of "
                              "<,==,> for %r, %r: %r" % (ka, kb, ops))
        if all(o in ops for o in ("lt", "eq", "le")):
            if ops["le"] is not (ops["lt"] or ops["eq"]):
                ctx.violation("offline.le", "<= is not the union for %r, %r"
                              % (ka, kb))
        if all(o in ops for o in ("gt", "eq", "ge")):
            if ops["ge"] is not (ops["gt"] or ops["eq"]):
                ctx.violation("offline.ge", ">= is not the union for %r, %r"
                              % (ka, kb))
        if "lt" in ops and "gt" in rev and ops["lt"] is not rev["gt"]:
            ctx.violation("offline.converse", "a<b is %r but b>a is %r for "
                          "%r, %r" % (ops["lt"], rev["gt"], ka, kb))
        if ops.get("eq") is True:
            parent[find(ka)] = find(kb)
        if ops.get("lt") is True:
            strict.append((ka, kb))
        if ops.get("gt") is True:
            strict.append((kb, ka))
    ctx.ev("offline.pairs", npairs)
    # one hash per equality class
    by_class = {}
    for k, hv in ctx.hash_events.items():
        if k not in exact or not hash_exact(k, True):
            continue
        c = find(k)
        if c in by_class and by_class[c][0] != hv:
            ctx.violation("offline.hash", "points that compared equal hash "
                          "differently: %r, %r" % (by_class[c][1], k))
        by_class.setdefault(c, (hv, k))
    # no strict cycle between classes (transitivity witness = short cycle)
    graph = collections.defaultdict(set)
    for a, b in strict:
        ca, cb = find(a), find(b)
        if ca == cb:
            ctx.violation("offline.lt_within_class", "%r < %r although they "
                          "are in one equality class" % (a, b))
        graph[ca].add(cb)
    # transitivity of < restricted to observed triples
    ntri = 0
    for a in list(graph):
        for b in graph[a]:
            for c in graph.get(b, ()):
                ops = rel.get((a, c)) or {}
                # a,b,c are class representatives; look up any observation
                if "lt" in ops:
                    ntri += 1
                    if ops["lt"] is not True:
                        ctx.violation("offline.transitivity", "a<b and b<c "
                                      "but not a<c: %r, %r, %r" % (a, b, c))
    ctx.ev("offline.triples", ntri)
    # cycle detection (iterative DFS colouring)
    colour = {}
    for root in list(graph):
        if root in colour:
            continue
        stack = [(root, iter(graph[root]))]
        colour[root] = 1
        path = [root]
        while stack:
            node, it = stack[-1]
            nxt = next(it, None)
            if nxt is None:
                colour[node] = 2
                stack.pop()
                path.pop()
                continue
            c = colour.get(nxt, 0)
            if c == 1:
                cyc = path[path.index(nxt):]
                ctx.violation("offline.cycle", "strict-order cycle of length "
                              "%d: %r" % (len(cyc), cyc[:5]))
                continue
            if c == 0:
                colour[nxt] = 1
                path.append(nxt)
                stack.append((nxt, iter(graph.get(nxt, ()))))
    ctx.extra["order_graph_nodes"] = len(exact)
    ctx.extra["order_graph_strict_edges"] = len(strict)
    ctx.extra["equality_classes_with_hash"] = len(by_class)
    del ctx.events[:]
