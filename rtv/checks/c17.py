"""C17 - strftime matches POSIX for the supported directives and strptime
inverts it.

Monitors: postconditions on TimePointDumper.strftime (text == the
reference's POSIX rendering of the civil date-time) and on
TimePointParser.strptime (equal instant for determining formats; period
start and assumed zone for partial ones); unsupported %-letters must be
refused with a ValueError subclass."""
import string
import time as _time
from fractions import Fraction as F

from unittest import mock

from .. import gen
from .. import refmodel as R

RULE = ("cases = (TimePoint kwargs with calendar year 0000-9999 in any of "
        "the 3 representations and any offset, format string of 1-7 tokens "
        "over %Y %m %d %j %H %M %S %F %X %z %s and literal text); "
        "determining formats (full date, time and zone, or %s) are also "
        "read back with strptime; partial formats check the defaults; every "
        "other ASCII letter is tried as an unsupported directive; "
        "non-trivial = a format with at least two directives or a point "
        "whose week-year differs from its calendar year; distinct by "
        "(p-fields, format)")
RUN_REPO_SUITE = True   # thorough tier: repo tests under these monitors
DECIDING = ["strftime.post", "strptime.post", "unsupported.post"]
MIN_EVALS = {"strftime.post": 5000, "strptime.post": 2500,
             "unsupported.post": 200}
MODE = "gregorian"
SUPPORTED = "YmdjHMSFXzs"
LITERALS = ["-", ":", "T", " ", "/", "_", ".", ",", ";", "Z", "at ", "day",
            "W", "hh", "(", ")", "#"]


def install(ctx, repo, probes):
    ctx.expect = None

    def pre(args, kwargs):
        p = args[1]
        if not p._truncated and p._hour_of_day == 24 and \
                type(p._hour_of_day) is int and \
                R.tp_valid(MODE, p, allow_24=True) and \
                R.tp_form(p) == "hms" and R.tp_is_integral(p):
            # 24:00 is no POSIX civil time: the day's end may be rendered as
            # 24:00:00 of that day or as 00:00:00 of the next - but as one of
            # the two throughout one text, with %s the instant's Unix time
            rd = R.tp_rd(MODE, p)
            if 0 <= R.rd_to_ymd(MODE, rd)[0] and \
                    R.rd_to_ymd(MODE, rd + 1)[0] <= 9999:
                return ("24", rd, R.tp_offset_minutes(p),
                        R.tp_instant(MODE, p), R.tp_key(p))
            return None
        if p._truncated or not R.tp_valid(MODE, p) or p._hour_of_day == 24:
            return None
        rd = R.tp_rd(MODE, p)
        y = R.rd_to_ymd(MODE, rd)[0]
        if not 0 <= y <= 9999:
            return None
        inst = R.tp_instant(MODE, p)
        return (rd, R.tp_sod(p), R.tp_offset_minutes(p), inst, R.tp_key(p))

    def post(snap, args, kwargs, text, exc):
        if snap is None:
            return
        fmt = args[2]
        letters = [fmt[i + 1] for i in range(len(fmt) - 1)
                   if fmt[i] == "%"]
        if snap[0] == "24":
            if any(c not in SUPPORTED for c in letters) or \
                    not isinstance(fmt, str):
                return
            _, rd, off, inst, key = snap
            ctx.ev("strftime.post-24")
            secs = int(inst - R.unix_epoch_rd(MODE) * 86400)
            wants = (R.posix_strftime(MODE, fmt, rd, 86400, off, secs),
                     R.posix_strftime(MODE, fmt, rd + 1, 0, off, secs))
            if exc is not None or text not in wants:
                ctx.violation("strftime.wrong-24", "strftime(%r, %r) = %r / "
                              "raised %r; the end of that day is %r or %r" % (
                                  key, fmt, text, exc, wants[0], wants[1]),
                              p=key, fmt=fmt)
            else:
                ctx.cls("strftime/end-of-day-24")
            return
        rd, sod, off, inst, key = snap
        if any(c not in SUPPORTED for c in letters):
            ctx.ev("unsupported.post")
            bad = [c for c in letters if c not in SUPPORTED]
            if exc is None or not isinstance(exc, ValueError):
                ctx.violation("unsupported", "strftime(%r) with unsupported "
                              "directive %%%s returned %r / raised %r instead "
                              "of a ValueError-derived error" % (
                                  fmt, bad[0], text, exc), fmt=fmt)
            else:
                ctx.cls("unsupported-refused")
            return
        ctx.ev("strftime.post")
        epoch = R.unix_epoch_rd(MODE) * 86400
        secs = int((inst - epoch) // 1)
        want = R.posix_strftime(MODE, fmt, rd, int(sod // 1), off, secs)
        hform_minutes = (key[3] is None and key[4] is None and off % 60)
        if exc is None and text != want and (sod.denominator != 1 or
                                             hform_minutes):
            # fractional time of day (tolerance regime, R1): a field within
            # 1e-6 s of the next whole second may print as that second, and
            # either neighbouring whole second is accepted for %s
            eps = F(1, 10**6)
            for s2 in {int(sod // 1), int((sod + eps) // 1),
                       max(0, int((sod - eps) // 1))}:
                for e2 in {secs - 1, secs, secs + 1}:
                    alt = R.posix_strftime(MODE, fmt, rd, min(s2, 86399),
                                           off, e2)
                    if text == alt:
                        want = alt
            if text == want:
                ctx.extra["float_edge_observations"] = ctx.extra.get(
                    "float_edge_observations", 0) + 1
        if exc is not None:
            ctx.violation("strftime.raised", "strftime(%r, %r) raised %r; "
                          "POSIX gives %r" % (key, fmt, exc, want), p=key,
                          fmt=fmt)
        elif text != want:
            ctx.violation("strftime.wrong", "strftime(%r, %r) = %r; POSIX "
                          "gives %r" % (key, fmt, text, want), p=key, fmt=fmt,
                          is_week=(key[0] == "week"))
        else:
            ctx.cls("strftime/" + key[0])
            wy = R.rd_to_week(MODE, rd)[0]
            if key[0] == "week" and wy != R.rd_to_ymd(MODE, rd)[0] and \
                    ("Y" in letters or "F" in letters):
                ctx.cls("week-year-differs-from-calendar-year")
            for c in letters:
                ctx.cls("directive/%" + c)
            if inst < epoch and "s" in letters:
                ctx.cls("%s-before-1970")
    probes.wrap(repo.dumpers.TimePointDumper, "strftime", post, pre)

    # the public entry TimePoint.strftime(fmt): same oracle, one level up
    def pre_tp(args, kwargs):
        return pre((None, args[0]), {})

    def post_tp(snap, args, kwargs, text, exc):
        fmt = args[1] if len(args) > 1 else kwargs.get("strftime_format")
        if snap is None or not isinstance(fmt, str):
            return
        letters = [fmt[i + 1] for i in range(len(fmt) - 1) if fmt[i] == "%"]
        if any(c not in SUPPORTED for c in letters):
            ctx.ev("unsupported.post")
            lib_error = getattr(repo.exceptions, "IsodatetimeError",
                                ValueError)
            if exc is None or not (isinstance(exc, ValueError) and
                                   isinstance(exc, lib_error)):
                ctx.violation("unsupported", "TimePoint.strftime(%r) with an "
                              "unsupported directive returned %r / raised "
                              "%r instead of the library's ValueError-"
                              "derived error" % (fmt, text, exc), fmt=fmt)
            return
        post(snap, (None, args[0], fmt), {}, text, exc)
    probes.wrap(repo.TimePoint, "strftime", post_tp, pre_tp)

    def post_strptime(snap, args, kwargs, q, exc):
        e = ctx.expect
        if e is None:
            return
        ctx.ev("strptime.post")
        text, fmt = args[1], args[2]
        if exc is not None:
            ctx.violation("strptime.raised", "strptime(%r, %r) raised %r "
                          "(text produced by strftime of %r)" % (
                              text, fmt, exc, e["key"]), fmt=fmt, text=text)
            return
        prob = None
        if q._truncated or not R.tp_valid(MODE, q):
            prob = "result is not a valid full TimePoint"
        else:
            got = R.tp_instant(MODE, q)
            if got != e["instant"]:
                prob = "instant differs by %s s" % float(got - e["instant"])
            elif e.get("offset") is not None and \
                    R.tp_offset_minutes(q) != e["offset"]:
                prob = "offset %d, expected %d" % (R.tp_offset_minutes(q),
                                                   e["offset"])
        if prob:
            ctx.violation("strptime.wrong", "strptime(%r, %r) = %r: %s" % (
                text, fmt, R.tp_key(q), prob), fmt=fmt, text=text)
        else:
            ctx.cls("strptime/" + e["kind"])
            if e["kind"] == "epoch" and e["instant"] < \
                    R.unix_epoch_rd(MODE) * 86400:
                ctx.cls("strptime/%s-before-1970")
    probes.wrap(repo.parsers.TimePointParser, "strptime", post_strptime)
    ctx.parsers = {}
    for rep in gen.REPS:
        ctx.target("strftime/" + rep)
    for c in SUPPORTED:
        ctx.target("directive/%" + c)
    ctx.target("strftime/via-operator", "unsupported-refused-strptime",
               "strftime/end-of-day-24", "strptime/local-default")
    ctx.target("parser/assumed+default-unknown", "empty-format",
               "week-year-differs-from-calendar-year", "%s-before-1970",
               "strptime/full", "strptime/epoch", "strptime/partial",
               "strptime/%s-before-1970", "unsupported-refused")


def rand_format(rng):
    n = rng.randint(1, 7)
    out = ""
    for i in range(n):
        out += "%" + rng.choice(SUPPORTED)
        if rng.random() < 0.8:
            out += rng.choice(LITERALS)
    if rng.random() < 0.3:
        out = rng.choice(LITERALS) + out
    return out


DATE_PARTS = ["%Y-%m-%d", "%F", "%Y%m%d", "%Y-%j", "%d/%m/%Y", "%j of %Y",
              "%m.%d.%Y"]
TIME_PARTS = ["%H:%M:%S", "%X", "%H%M%S", "%S-%M-%H", "%Hh%Mm%Ss"]


def determining_format(rng):
    d, t = rng.choice(DATE_PARTS), rng.choice(TIME_PARTS)
    sep = rng.choice(("T", " ", "_", " at "))
    order = rng.random()
    if order < 0.6:
        return d + sep + t + rng.choice(("", " ")) + "%z"
    if order < 0.8:
        return "%z " + t + sep + d
    return t + " %z " + d


def run_case(ctx, repo, case):
    repo.set_mode(MODE)
    p = repo.tp(case["p"])
    key = R.tp_key(p)
    op = case["op"]
    fmt = case["fmt"]
    if op == "unsupported-strptime":
        # reading with an unsupported directive is refused too - every time
        # the same parser is asked
        parser = ctx.parsers.setdefault("unsupported",
                                        repo.parsers.TimePointParser())
        for attempt in (1, 2, 3):
            ctx.ev("unsupported-strptime")
            try:
                res = parser.strptime(case["text"], fmt)
                exc = None
            except Exception as e:
                res, exc = None, e
            if exc is None or not isinstance(exc, ValueError):
                ctx.violation("unsupported", "strptime(%r, %r) with an "
                              "unsupported directive (attempt %d on one "
                              "parser) returned %r / raised %r" % (
                                  case["text"], fmt, attempt,
                                  None if res is None else R.tp_key(res),
                                  exc), fmt=fmt)
                break
        else:
            ctx.cls("unsupported-refused-strptime")
        return
    if op in ("strftime", "unsupported"):
        if case.get("via") == "oper":
            # a long-lived DateTimeOperator: what it printed before (also a
            # year its format cannot hold) does not matter
            if getattr(ctx, "oper", None) is None:
                ctx.oper = repo.datetimeoper.DateTimeOperator()
            try:
                far = repo.tp(dict(case["p"], year=12345,
                                   num_expanded_year_digits=2))
                ctx.oper.strftime(far, fmt)
            except Exception:
                pass
            want = None
            if R.tp_is_integral(p) and R.tp_form(p) == "hms" and \
                    p._hour_of_day != 24:
                rd = R.tp_rd(MODE, p)
                epoch = R.unix_epoch_rd(MODE) * 86400
                want = R.posix_strftime(
                    MODE, fmt, rd, int(R.tp_sod(p)), R.tp_offset_minutes(p),
                    int(R.tp_instant(MODE, p) - epoch))
            try:
                got = ctx.oper.strftime(p, fmt)
            except Exception as e:
                got = e
            ctx.ev("oper.strftime")
            if want is not None and got != want:
                ctx.violation("strftime.wrong", "DateTimeOperator.strftime("
                              "%r, %r) = %r, POSIX gives %r" % (
                                  key, fmt, got, want), fmt=fmt)
            else:
                ctx.cls("strftime/via-operator")
            return
        try:
            if case.get("via") == "dumper":
                repo.dumpers.TimePointDumper().strftime(p, fmt)
            else:
                p.strftime(fmt)
        except Exception:
            pass
        n = fmt.count("%")
        rd = R.tp_rd(MODE, p)
        if n >= 2 or R.rd_to_week(MODE, rd)[0] != R.rd_to_ymd(MODE, rd)[0]:
            ctx.nontrivial((key, fmt))
        return
    if op == "local-default":
        # one long-lived parser without an assumed zone reads zone-less
        # texts while the system's local offset changes between the calls:
        # each time the offset in effect then is the default
        parser = ctx.parsers.setdefault("local-default",
                                        repo.parsers.TimePointParser())
        secs = case["local_seconds"]
        m = mock.Mock(spec=_time)
        m.timezone = m.altzone = -secs
        m.daylight = 0
        m.localtime.return_value = mock.Mock(tm_isdst=0)
        rd = R.tp_rd(MODE, p)
        text = p.strftime(fmt)
        ctx.expect = {"kind": "partial", "key": key, "offset": secs // 60,
                      "instant": rd * 86400 + int(R.tp_sod(p)) - secs}
        try:
            with mock.patch.object(repo.timezone, "time", m):
                try:
                    parser.strptime(text, fmt)
                except Exception:
                    pass
        finally:
            ctx.expect = None
        ctx.cls("strptime/local-default")
        ctx.nontrivial((key, fmt, op, secs))
        return
    # round trip
    assumed = tuple(case.get("assumed", (0, 0)))
    # (an assumed zone outranks default_to_unknown_time_zone when a parser
    # is given both, as in TimePointParser.parse; chosen from the case)
    both = bool(case.get("also_unknown",
                         (assumed[0] + assumed[1]) % 3 == 1))
    if (assumed, both) not in ctx.parsers:
        kw = {"default_to_unknown_time_zone": True} if both else {}
        ctx.parsers[(assumed, both)] = repo.parsers.TimePointParser(
            assumed_time_zone=assumed, **kw)
    parser = ctx.parsers[(assumed, both)]
    if both:
        ctx.cls("parser/assumed+default-unknown")
    try:
        text = p.strftime(fmt)
    except Exception:
        return                      # reported by the strftime monitor
    inst = R.tp_instant(MODE, p)
    if op == "roundtrip":
        ctx.expect = {"kind": "full", "instant": inst, "key": key,
                      "offset": R.tp_offset_minutes(p)}
    elif op == "epoch":
        ctx.expect = {"kind": "epoch", "instant": inst, "key": key}
    else:   # partial: defaults to the start of the period / assumed zone
        rd = R.tp_rd(MODE, p)
        y, m, d = R.rd_to_ymd(MODE, rd)
        part = case["part"]
        off = assumed[0] * 60 + assumed[1]
        if part == "year":
            want = R.ymd_to_rd(MODE, y, 1, 1) * 86400
        elif part == "month":
            want = R.ymd_to_rd(MODE, y, m, 1) * 86400
        elif part == "day":
            want = rd * 86400
        elif part == "hour":
            want = rd * 86400 + int(R.tp_sod(p)) // 3600 * 3600
        else:
            want = rd * 86400 + int(R.tp_sod(p)) // 60 * 60
        ctx.expect = {"kind": "partial", "instant": want - off * 60,
                      "key": key, "offset": off}
    try:
        try:
            parser.strptime(text, fmt)
        except Exception:
            pass
    finally:
        ctx.expect = None
    ctx.nontrivial((key, fmt, op))


def make_point(rng, whole=True):
    rep = rng.choice(gen.REPS)
    v = rng.random()
    if v < 0.25:
        # days where the ISO week-year differs from the calendar year
        y = rng.choice((2016, 2010, 2005, 1999, 2021, 1, 9999, 2012, 1970))
        rd = R.ymd_to_rd(MODE, y, 1, 1) + rng.choice((0, 1, 2, -1, -2, -3))
    else:
        y = rng.choice((0, 1, 1969, 1970, 1971, 9999, 2000,
                        rng.randint(0, 9999)))
        rd = gen.rand_rd(rng, MODE, y, bias=0.5)
    if not 0 <= R.rd_to_ymd(MODE, rd)[0] <= 9999:
        rd = R.ymd_to_rd(MODE, 2016, 1, 1)
    kw = gen.date_kwargs(MODE, rep, rd)
    if not 0 <= kw["year"] <= 9999:
        rep = "cal"
        kw = gen.date_kwargs(MODE, "cal", rd)
    kw.pop("num_expanded_year_digits", None)
    if rng.random() < 0.12:
        # a point that carries expanded-year digits (as parsed from
        # +002000-...): POSIX %Y is still the plain year
        kw["num_expanded_year_digits"] = rng.choice((1, 2, 3))
    tk = gen.time_kwargs(rng, "hms" if whole else rng.choice(
        ("hms", "hmsf", "hm", "h")))
    kw.update(tk)
    off = gen.rand_offset(rng)
    # keep the civil date inside 0000-9999 regardless of zone
    kw.update(gen.zone_kwargs(off))
    return kw


FORMATS_24 = ("%s %F %X", "%F %X %s", "%d %s %j %H", "%H:%M:%S %s %Y-%m-%d",
              "%s", "%F %X", "%j %s %j", "%Y%m%dT%H%M%S%z %s", "%s|%d|%s|%d")


def workload(ctx, repo):
    rng = ctx.rng
    # every punctuation character as literal text between directives (none
    # of them means anything to strptime)
    if ctx.worker == 0:
        for fmt in ("%F %X %z\n", "%s\n", "%Y-%m-%dT%H:%M:%S%z\r\n",
                    "%F %X %z\n\n", "\n%F\n%X\n%z", "%F %X %z\t",
                    "%F %X %z "):
            for _ in range(3):
                kw = make_point(rng)
                case = {"op": "roundtrip" if "%s" not in fmt else "epoch",
                        "p": kw, "fmt": fmt, "assumed": [0, 0]}
                ctx.case = case
                ctx.ev("cases.literal-whitespace")
                run_case(ctx, repo, case)
        for j, c in enumerate("|()[]{}*+?.^$\\#&~!<>=@'\"`;,"):
            for fmt in ("%F" + c + "%X" + c + "%z",
                        "%Y" + c + "%m" + c + "%d %H:%M:%S %z",
                        c + "%Y-%j %H%M%S%z" + c, "%z" + c + c + "%F %X"):
                kw = make_point(rng)
                case = {"op": "roundtrip", "p": kw, "fmt": fmt,
                        "assumed": [0, 0]}
                ctx.case = case
                ctx.ev("cases.literal-punctuation")
                run_case(ctx, repo, case)
    # the system's local offset as the default, changing between the calls
    # of one parser
    if ctx.worker == 0:
        for j, secs in enumerate((0, 19800, -28800, 3600, 0, -12600, 45900,
                                  19800, 0)):
            for fmt in ("%Y-%m-%d %H:%M:%S", "%Y%m%dT%H%M%S", "%F %X"):
                kw = make_point(rng)
                for key_ in ("time_zone_hour", "time_zone_minute"):
                    kw.pop(key_, None)
                kw.update(gen.zone_kwargs((0, 0)))
                case = {"op": "local-default", "p": kw, "fmt": fmt,
                        "local_seconds": secs}
                ctx.case = case
                ctx.ev("cases.local-default")
                run_case(ctx, repo, case)
    # %s beside other directives, before and after them: the Unix time
    # decides the instant wherever it stands in the format
    for j in range(60 if ctx.tier == "quick" else 240):
        if not ctx.mine(j):
            continue
        for fmt in ("%s %z", "%z %s", "%s %H:%M", "%H:%M %s", "%s %F",
                    "%F %s", "%X %s %Y", "%s %j", "%M %s %S", "%s %F %X %z",
                    "%d.%m.%Y %s"):
            kw = make_point(rng)
            case = {"op": "epoch", "p": kw, "fmt": fmt,
                    "assumed": list(rng.choice(((0, 0), (5, 30), (-8, 0))))}
            ctx.case = case
            ctx.ev("cases.epoch-mixed")
            run_case(ctx, repo, case)
    # the end of a day written 24:00, in every representation, at month,
    # year and week-year ends: one rendering, whichever directive comes first
    if ctx.worker == 0:
        for (y, m, d) in ((2001, 12, 31), (2004, 2, 28), (2004, 2, 29),
                          (2019, 12, 29), (2021, 1, 3), (1969, 12, 31),
                          (2000, 6, 15)):
            rd = R.ymd_to_rd(MODE, y, m, d)
            for rep in gen.REPS:
                for off in ((0, 0), (5, 30), (-3, 0)):
                    for fmt in FORMATS_24:
                        kw = gen.date_kwargs(MODE, rep, rd)
                        kw.pop("num_expanded_year_digits", None)
                        kw.update({"hour_of_day": 24, "minute_of_hour": 0,
                                   "second_of_minute": 0})
                        kw.update(gen.zone_kwargs(off))
                        case = {"op": "strftime", "p": kw, "fmt": fmt}
                        if len(fmt) % 2:
                            case["via"] = "dumper"
                        ctx.case = case
                        ctx.ev("cases.end-of-day-24")
                        run_case(ctx, repo, case)
    # Unix times that are whole 400-year cycles (and whole centuries) from
    # the epoch, printed and read back with %s
    if ctx.worker == 0:
        for y in list(range(370, 10000, 400)) + [1870, 2070, 1969, 1971]:
            for off in ((0, 0), (5, 30), (-8, 0)):
                inst = R.ymd_to_rd(MODE, y, 1, 1) * 86400
                kw = gen.tp_from_instant(rng, MODE, inst, offset=off,
                                         allow_2400=False)
                if not 0 <= kw["year"] <= 9999:
                    continue
                kw.pop("num_expanded_year_digits", None)
                case = {"op": "epoch", "p": kw, "fmt": "%s",
                        "assumed": [0, 0]}
                ctx.case = case
                ctx.ev("cases.epoch-cycles")
                run_case(ctx, repo, case)
    # the days around the leap day in every representation (day 60 is 29
    # February in a leap year and 1 March otherwise)
    if ctx.worker == 0:
        for y in (2000, 2004, 2020, 1600, 1900, 2001, 0):
            for rd in range(R.ymd_to_rd(MODE, y, 2, 27),
                            R.ymd_to_rd(MODE, y, 3, 2) + 1):
                for rep in gen.REPS:
                    kw = gen.date_kwargs(MODE, rep, rd)
                    kw.pop("num_expanded_year_digits", None)
                    kw.update({"hour_of_day": 6, "minute_of_hour": 7,
                               "second_of_minute": 8})
                    kw.update(gen.zone_kwargs((0, 0)))
                    for via in ("point", "dumper"):
                        case = {"op": "strftime", "p": kw, "via": via,
                                "fmt": "%Y-%m-%d %j %F"}
                        ctx.case = case
                        ctx.ev("cases.leap-day")
                        run_case(ctx, repo, case)
    n = 8000 if ctx.tier == "quick" else 24000
    for k in range(n):
        v = k % 10
        if v < 5:
            case = {"op": "strftime", "p": make_point(rng, whole=(k % 4 != 0)),
                    "fmt": rand_format(rng),
                    "via": "dumper" if k % 3 == 0 else "point"}
            if k % 10 == 2 and k % 4 != 0:
                case["via"] = "oper"
            if k % 50 == 10:
                # no directive at all: the empty format, literal text only
                case["fmt"] = rng.choice(("", "", " ", "T", "literal"))
                if case["fmt"] == "":
                    ctx.cls("empty-format")
        elif v < 7:
            case = {"op": "roundtrip", "p": make_point(rng),
                    "fmt": determining_format(rng),
                    "assumed": list(gen.rand_offset(rng))}
        elif v == 7:
            case = {"op": "epoch", "p": make_point(rng),
                    "fmt": rng.choice(("%s", "epoch=%s", "%s s")),
                    "assumed": list(gen.rand_offset(rng))}
        elif v == 8:
            part, fmt = rng.choice((("year", "%Y"), ("month", "%Y-%m"),
                                    ("day", "%F"), ("day", "%Y%j"),
                                    ("hour", "%Y-%m-%dT%H"),
                                    ("minute", "%FT%H:%M")))
            case = {"op": "partial", "p": make_point(rng), "fmt": fmt,
                    "part": part,
                    "assumed": list(gen.rand_offset(rng))}
        else:
            letter = rng.choice([c for c in string.ascii_letters
                                 if c not in SUPPORTED] + list(
                                     "\u00e9\u00df\u03a9\u044f\u00c5"))
            case = {"op": "unsupported", "p": make_point(rng),
                    "fmt": rng.choice(("%" + letter, "%Y-%" + letter,
                                       "x%" + letter + "%d"))}
            if k % 20 == 9:
                case = {"op": "unsupported-strptime", "p": case["p"],
                        "fmt": rng.choice(("%Y-%m-%d %" + letter,
                                           "%Y%m%dT%H%M%" + letter,
                                           "%" + letter + " %Y")),
                        "text": rng.choice(("2002-03-01 ", "20020301T1200x",
                                            "x 2002"))}
        ctx.case = case
        if k % 499 == 0:
            ctx.sample(case)
        run_case(ctx, repo, case)
        if k % 5 == 0 and case["op"] in ("strftime", "roundtrip"):
            tw = gen.twin_of(rng, MODE, case["p"])
            if tw is not None and 0 <= tw["year"] <= 9999:
                tw.pop("num_expanded_year_digits", None)
                case = dict(case, p=tw)
                ctx.case = case
                ctx.ev("cases.twin")
                run_case(ctx, repo, case)
