"""C05 - month and year arithmetic follows calendar rules with end-of-period
clamping.

Monitors: postconditions on TimePoint.add_months and on TimePoint.__add__
for durations with a year/month part; oracle = reference nominal arithmetic
(single clamped month steps; per-representation year clamp; exact part
first, then months, then years)."""
from fractions import Fraction as F

from .. import gen
from .. import refmodel as R
from ..regime import TOL, SLACK, add_stays_integral

RULE = ("cases = (mode, TimePoint kwargs, Duration kwargs with months and/or "
        "years, optionally exact units) and direct add_months(n) calls; "
        "sweep over every month end, leap day, day 365/366, W52/W53 day, "
        "1st/15th of 6-14 year types x n in {+-1..+-13, +-24, +-25, +-48} "
        "months and {+-1,+-3,+-4,+-100,+-400} years x 3 representations x 4 "
        "modes, plus seeded random; non-trivial = the reference result "
        "needed a clamp or crossed a year boundary; distinct by (mode, "
        "p-fields, d-fields)")
RUN_REPO_SUITE = True   # thorough tier: repo tests under these monitors
DECIDING = ["nominal.post", "add_months.post"]
MIN_EVALS = {"nominal.post": 4000, "add_months.post": 3000}
ASSUMPTIONS = [
    "24:00 operands: only validity, representation and offset are asserted "
    "(R2c); fractional operands: instant within 1e-6 s of the reference",
]


def expected(mode, rep, date, sod, d):
    """reference result (date, sod) of p + d, and whether a clamp happened"""
    local = R.date_to_rd(mode, rep, date) * 86400 + sod + R.dur_len(d)
    rd1 = int(local // 86400)
    sod1 = local - rd1 * 86400
    date1 = R.rd_to_date(mode, rep, rd1)
    years, months = R.dur_nominal(d)
    date2 = R.add_months_date(mode, rep, date1, months)
    date3 = R.add_years_date(mode, rep, date2, years) if years else date2
    # clamp detection: compare with the unclamped naive result
    clamped = False
    if months:
        y, m, dd = R.rd_to_ymd(mode, R.date_to_rd(mode, rep, date1))
        y2, m2, d2 = R.rd_to_ymd(mode, R.date_to_rd(mode, rep, date2))
        clamped = d2 != dd
    if years and not clamped:
        naive = (date2[0] + years,) + tuple(date2[1:])
        clamped = naive != tuple(date3)
    return tuple(date3), sod1, clamped, date1


def install(ctx, repo, probes):
    TP, Dur = repo.TimePoint, repo.Duration

    def snap_of(p):
        mode = R.canon(repo.CALENDAR.mode)
        if p._truncated or not R.tp_valid(mode, p):
            return None
        rep, date = R.tp_date(p)
        return {"mode": mode, "rep": rep, "date": date, "sod": R.tp_sod(p),
                "key": R.tp_key(p), "is24": p._hour_of_day == 24}

    def judge(tag, snap, d_key, want_date, want_sod, q, exc, exact, clamped,
              nominal_kind):
        mode = snap["mode"]
        if exc is not None:
            ctx.violation(tag + ".raised", "%s raised %r: p=%r d=%r" % (
                tag, exc, snap["key"], d_key), p=snap["key"], d=d_key)
            return
        prob = None
        if not isinstance(q, TP) or q._truncated:
            prob = "result is not a full TimePoint"
        elif R.tp_rep(q) != snap["rep"]:
            prob = "representation changed"
        elif R.tp_key(q)[5:8] != snap["key"][5:8]:
            prob = "UTC offset changed"
        elif not R.tp_valid(mode, q, allow_24=snap["is24"],
                            slack=F(0) if exact else SLACK):
            prob = "result is not a valid date-time of the mode"
        elif not snap["is24"]:
            rep, date = R.tp_date(q)
            if exact:
                if tuple(date) != want_date:
                    prob = "lands on %r, reference %r" % (date, want_date)
                elif R.tp_sod(q) != want_sod:
                    prob = "time of day changed (%s vs %s)" % (
                        R.tp_sod(q), want_sod)
            else:
                got = R.date_to_rd(mode, rep, date) * 86400 + R.tp_sod(q)
                want = R.date_to_rd(mode, rep, want_date) * 86400 + want_sod
                if abs(got - want) > TOL:
                    prob = "instant off by %s s" % float(got - want)
        if prob:
            ctx.violation(tag + ".wrong", "%s: %s; p=%r d=%r got=%r (mode "
                          "%s)" % (tag, prob, snap["key"], d_key,
                                   R.tp_key(q) if hasattr(q, "_year") else q,
                                   mode), p=snap["key"], d=d_key)
            return
        ctx.cls("%s/%s/%s" % (mode, snap["rep"], nominal_kind))
        if clamped:
            ctx.cls("%s/%s/%s-clamp" % (mode, snap["rep"],
                                        nominal_kind.rstrip("+-0")))
        if clamped or want_date[0] != snap["date"][0]:
            ctx.nontrivial((mode, tag, snap["key"], d_key))

    def pre_add(args, kwargs):
        if len(args) != 2:
            return None
        p, d = args
        if not isinstance(d, Dur) or R.dur_is_exact(d):
            return None
        return snap_of(p)

    def post_add(snap, args, kwargs, q, exc):
        if snap is None:
            return
        d = args[1]
        ctx.ev("nominal.post")
        want_date, want_sod, clamped, _ = expected(
            snap["mode"], snap["rep"], snap["date"], snap["sod"], d)
        years, months = R.dur_nominal(d)
        if years and months:
            kind = "mixed"
        elif months:
            kind = "months" + ("+" if months > 0 else "-")
        else:
            kind = "years" + ("+" if years > 0 else "-")
        exact = add_stays_integral(args[0], d)
        judge("nominal", snap, R.dur_key(d), want_date, want_sod, q, exc,
              exact, clamped, kind)
    probes.wrap(TP, "__add__", post_add, pre_add)

    def pre_am(args, kwargs):
        return snap_of(args[0])

    def post_am(snap, args, kwargs, q, exc):
        if snap is None:
            return
        n = args[1] if len(args) > 1 else kwargs.get("num_months")
        if not isinstance(n, int):
            return
        ctx.ev("add_months.post")
        want = tuple(R.add_months_date(snap["mode"], snap["rep"],
                                       snap["date"], n))
        # add_months itself normalises 24:00 only via its final tick-over
        y, m, dd = R.rd_to_ymd(snap["mode"], R.date_to_rd(
            snap["mode"], snap["rep"], snap["date"]))
        y2, m2, d2 = R.rd_to_ymd(snap["mode"], R.date_to_rd(
            snap["mode"], snap["rep"], want))
        judge("add_months", snap, n, want, snap["sod"], q, exc,
              R.tp_is_integral(args[0]), d2 != dd,
              "months" + ("+" if n > 0 else "-") if n else "months0")
    probes.wrap(TP, "add_months", post_am, pre_am)

    for mode in R.MODES:
        for rep in gen.REPS:
            for kind in ("months+", "months-", "years+", "years-", "mixed"):
                ctx.target("%s/%s/%s" % (mode, rep, kind))
            if mode != "360day":
                ctx.target("%s/%s/months-clamp" % (mode, rep))
            if mode == "gregorian" or rep == "week":
                ctx.target("%s/%s/years-clamp" % (mode, rep))
    ctx.target("duration/standardize")


def _dur(ctx, repo, kw):
    """the Duration the keywords spell: month and year counts are kept as
    given (also under standardize=True, which only carries exact units), and
    the exact part keeps its total"""
    d = repo.dur(kw)
    ctx.ev("ctor.check")
    want = (kw.get("years", 0), kw.get("months", 0),
            sum(F(kw.get(u, 0)) * k for u, k in (
                ("weeks", 604800), ("days", 86400), ("hours", 3600),
                ("minutes", 60), ("seconds", 1))))
    got = tuple(R.dur_nominal(d)) + (R.dur_len(d),)
    if got[:2] != want[:2] or abs(got[2] - want[2]) > F(1, 10 ** 6):
        ctx.violation("ctor.fields", "Duration(**%r) carries (years, months, "
                      "exact seconds) = %r, the keywords spell %r" % (
                          kw, got, want), d=kw)
    if kw.get("standardize"):
        ctx.cls("duration/standardize")
    return d


def run_case(ctx, repo, case):
    repo.set_mode(case["mode"], case)
    try:
        p = repo.tp(case["p"])
        key0 = R.tp_key(p)
        for again in (0, 1):
            # (twice on the same operand: the operation is a function of
            # its operands, which it leaves as they are)
            if case["op"] == "add":
                p + _dur(ctx, repo, case["d"])
            elif case["op"] == "radd":
                _dur(ctx, repo, case["d"]) + p
            elif case["op"] == "sub":
                p - _dur(ctx, repo, case["d"])
            else:
                p.add_months(case["n"])
            if R.tp_key(p) != key0:
                ctx.violation("operand.changed", "%s on %r changed its "
                              "operand to %r (call %d)" % (
                                  case["op"], key0, R.tp_key(p), again + 1),
                              p=key0)
                break
    finally:
        repo.set_mode("gregorian")


SWEEP_YEARS = {
    "gregorian": [2000, 2001, 2003, 2004, 1900, 2100, 0, -1, -4, 9999, 2015,
                  2020, 1999, 2096],
    "360day": [2000, 2001, 0, -1, 2003, 2005],
    "365day": [2000, 2001, 0, -1, 2003, 2005],
    "366day": [2000, 2001, 0, -1, 2003, 2005],
}
MONTH_NS = list(range(1, 14)) + [24, 25, 48]
YEAR_NS = [1, 3, 4, 100, 400]


def sweep_starts(mode, y):
    out = set()
    y0 = R.days_before_year(mode, y)
    acc = 0
    for n in R.month_lengths(mode, y):
        out.add(y0 + acc)            # 1st
        out.add(y0 + acc + 14)       # 15th
        acc += n
        out.add(y0 + acc - 1)        # month end
        out.add(y0 + acc - 2)
    L = R.year_len(mode, y)
    out.update((y0 + L - 1, y0 + L - 2, y0 + 58, y0 + 59))
    ws = R.week_start(mode, y + 1)
    out.update(range(ws - 14, ws))   # last two weeks of the week-year
    return sorted(out)


def workload(ctx, repo):
    rng = ctx.rng
    stride = 5 if ctx.tier == "quick" else 1
    i = 0
    for mode in R.MODES:
        for y in SWEEP_YEARS[mode]:
            for rd in sweep_starts(mode, y):
                for rep in gen.REPS:
                    durs = [{"months": s * n} for n in MONTH_NS
                            for s in (1, -1)]
                    durs += [{"years": s * n} for n in YEAR_NS
                             for s in (1, -1)]
                    durs += [{"years": 1, "months": 1},
                             {"years": -1, "months": -11, "days": 1},
                             {"months": 1, "hours": 23, "minutes": 59,
                              "seconds": 59}]
                    for dkw in durs:
                        i += 1
                        if (i + ctx.seed) % stride or \
                                not ctx.mine(i // stride):
                            continue
                        kw = gen.date_kwargs(mode, rep, rd)
                        kw.update(gen.time_kwargs(
                            rng, ("hms", "hms", "hm", "h", "hmsf", "24")[
                                (i // stride) % 6], integral=(i % 3 != 0)))
                        kw.update(gen.zone_kwargs(gen.rand_offset(rng)))
                        v = (i // stride) % 4
                        if v == 3 and set(dkw) == {"months"}:
                            case = {"op": "add_months", "mode": mode,
                                    "p": kw, "n": dkw["months"]}
                        else:
                            case = {"op": ("add", "radd", "sub")[v % 3],
                                    "mode": mode, "p": kw, "d": dkw}
                        ctx.case = case
                        ctx.ev("cases.sweep")
                        run_case(ctx, repo, case)
    # deterministic clamp cases (independent of stride / seed)
    if ctx.worker == 0:
        for mode in R.MODES:
            for y in (2000, 2004, 2015, 2020, 1999, 2003, 2096, 1896, 2104):
                y0 = R.days_before_year(mode, y)
                L = R.year_len(mode, y)
                ws = R.week_start(mode, y + 1)
                for rd in (y0 + 59, y0 + L - 1, ws - 1, ws - 7, y0 + 30):
                    for rep in gen.REPS:
                        for dkw in ({"years": 1}, {"years": -1},
                                    {"years": 3}, {"years": -3},
                                    {"years": 4}, {"years": -4},
                                    {"years": 8}, {"years": 100},
                                    {"years": -200}, {"years": 400},
                                    {"months": 1}, {"months": -1},
                                    {"months": 1, "days": -30},
                                    {"years": 1, "days": -365},
                                    {"months": 1, "hours": -720},
                                    {"years": 1, "months": -12, "days": -5},
                                    {"months": -1, "days": 30},
                                    {"months": 12}, {"months": -24},
                                    {"months": 13, "years": -2},
                                    {"months": -1, "years": 1, "days": 1},
                                    # exact parts that cross several New
                                    # Years in one go, either way
                                    {"months": 2, "days": -400},
                                    {"months": -1, "days": -800},
                                    {"years": 1, "days": -1200},
                                    {"months": 1, "days": 800},
                                    {"years": -1, "days": 1500},
                                    {"months": 3, "hours": -24 * 1100}):
                            kw = gen.date_kwargs(mode, rep, rd)
                            kw.update({"hour_of_day": 6, "minute_of_hour": 7,
                                       "second_of_minute": 8})
                            case = {"op": "add", "mode": mode, "p": kw,
                                    "d": dkw}
                            ctx.case = case
                            ctx.ev("cases.sweep")
                            run_case(ctx, repo, case)
    # the months / days part lands on 29 February of a leap year that is not
    # the operand's own year, then the years part leaves the leap year
    if ctx.worker == 0:
        for L in (2000, 2004, 2020, 2096, 1904):
            ld = R.days_before_year("gregorian", L) + 59
            starts = []
            for m, day0, dy in ((2, (29, 30, 31), (L - 1, 12)),
                                (11, (29, 30, 31), (L - 1, 3)),
                                (-13, (29, 30, 31), (L + 1, 3)),
                                (-11, (29, 30, 31), (L + 1, 1)),
                                (14, (29, 30, 31), (L - 1, 12)),
                                (-25, (29, 30), (L + 2, 3))):
                for dd in day0:
                    starts.append(({"year": dy[0], "month_of_year": dy[1],
                                    "day_of_month": dd}, {"months": m}))
            for k in (62, 60, 1, 366, -1, -307, -365, -366):
                for rep in gen.REPS:
                    starts.append((gen.date_kwargs("gregorian", rep, ld - k),
                                   {"days": k}))
            for pkw, dkw in starts:
                for yrs in (1, -1, 2, 3, -3, 5, 100, -100, 4, 0):
                    d = dict(dkw, years=yrs)
                    kw = dict(pkw)
                    kw.update({"hour_of_day": 6, "minute_of_hour": 7,
                               "second_of_minute": 8})
                    case = {"op": ("add", "radd")[yrs % 2],
                            "mode": "gregorian", "p": kw, "d": d}
                    ctx.case = case
                    ctx.ev("cases.leapday-via")
                    run_case(ctx, repo, case)
    # long hauls: month counts of every magnitude up to whole 400-year
    # cycles (and just beside them) from the clamp-prone start days
    if ctx.worker == 0:
        for mode in R.MODES:
            y0 = R.days_before_year(mode, 2000)
            for rd in (y0 + 28, y0 + 29, y0 + 30, y0 + 59, y0 + 89, y0 + 14):
                for rep in gen.REPS:
                    for n in (120, 1199, 1200, 1201, 4799, 4800, 4801, 4806,
                              4812, 9600, 9601):
                        for s in (1, -1):
                            kw = gen.date_kwargs(mode, rep, rd)
                            kw.update({"hour_of_day": 6, "minute_of_hour": 7,
                                       "second_of_minute": 8})
                            if (n + rd) % 2:
                                case = {"op": "add_months", "mode": mode,
                                        "p": kw, "n": s * n}
                            else:
                                case = {"op": "add", "mode": mode, "p": kw,
                                        "d": {"months": s * n}}
                            ctx.case = case
                            ctx.ev("cases.longhaul")
                            run_case(ctx, repo, case)
    n = 5000 if ctx.tier == "quick" else 20000
    for k in range(n):
        mode = rng.choice(R.MODES) if k % 2 else "gregorian"
        integral = k % 4 != 0
        p = gen.rand_tp(rng, mode, integral=integral, bias=0.75,
                        year=gen.huge_year(rng) if k % 40 == 9 else None)
        if k % 6 == 5:
            # an operand that carries a dump format of its own (as parsed
            # with dump_as_parsed=True): formatting is no part of the value
            p["dump_format"] = rng.choice(("CCYY-Www-DThh:mm:ssZ",
                                           "CCYYDDDThhmm+hhmm",
                                           "CCYY-MM-DDThh:mm:ss+hh:mm"))
        if k % 7 == 0:
            case = {"op": "add_months", "mode": mode, "p": p,
                    "n": rng.choice([0, 1, -1, 12, -12, rng.randint(-40, 40),
                                     rng.choice((1, -1)) *
                                     int(10 ** rng.uniform(1.5, 4.1))])}
        else:
            case = {"op": rng.choice(("add", "radd", "sub")), "mode": mode,
                    "p": p, "d": gen.rand_nominal_dur(rng)}
            if k % 9 == 1:
                case["d"] = dict(case["d"], standardize=True)
                if k % 18 == 1:
                    case["d"]["months"] = rng.choice((12, 14, -13, 25, 36))
        ctx.case = case
        if k % 501 == 0:
            ctx.sample(case)
        ctx.ev("cases.random")
        run_case(ctx, repo, case)
