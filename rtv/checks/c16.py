"""C16 - time points, durations, zones and recurrences are immutable values.

Monitor: a write barrier (class-level __setattr__ on the four slotted
classes) sees every slot assignment in the process; a write to an object the
workload has already seen (pool member, operand or earlier result) is a
violation.  Offline: slot / str / hash snapshots of every pool member are
compared after steps of random programs built from the whole public API."""
import itertools
import random

from .. import core
from .. import gen
from .. import refmodel as R

RULE = ("cases = random programs (seeded) of public operations over a "
        "growing pool (<= 400 live values: full points in all "
        "representations/forms, truncated points, durations, zones, "
        "recurrences); every step applies one operation of the menu "
        "(arithmetic, six comparisons, hash, str/repr, strftime, to_*, "
        "get_*, properties, add_months, truncated addition, iteration, "
        "membership, neighbours, recurrence shifting, dumper/parser calls) "
        "to pool members and feeds results back into the pool; non-trivial = "
        "a step whose operation returned normally with at least one pool "
        "operand; distinct by (operation, operand snapshots)")
DECIDING = ["barrier.writes", "snapshot.compared"]
MIN_EVALS = {"barrier.writes": 200000, "snapshot.compared": 20000,
             "steps": 3000}
ASSUMPTIONS = [
    "an object is 'published' once the workload has held it (pool member, "
    "operand or returned result); temporaries inside the library are not",
]
MODE = "gregorian"
SLOTTED = ("TimePoint", "Duration", "TimeZone", "TimeRecurrence")


def slots_of(obj):
    names = []
    for klass in type(obj).__mro__:
        for n in getattr(klass, "__slots__", ()):
            if n not in names:
                names.append(n)
    return names


def snap_slots(obj, depth=0):
    if type(obj).__name__ in SLOTTED and depth < 4:
        out = [type(obj).__name__]
        for n in slots_of(obj):
            try:
                v = object.__getattribute__(obj, n)
            except AttributeError:
                v = "<unset>"
            out.append((n, snap_slots(v, depth + 1)))
        return tuple(out)
    if isinstance(obj, float):
        return ("f", repr(obj))
    return obj if isinstance(obj, (int, str, bool, type(None))) else repr(obj)


def snap_full(obj):
    try:
        s = str(obj)
    except BaseException as exc:
        s = "raises " + type(exc).__name__
    try:
        h = hash(obj)
    except BaseException as exc:
        h = "raises " + type(exc).__name__
    return (snap_slots(obj), s, h)


def install(ctx, repo, probes):
    ctx.published = {}
    ctx.barrier_on = True
    ctx.hits = 0

    def make(cls):
        def __setattr__(self, name, value):
            ctx.counters["barrier.writes"] += 1
            ent = ctx.published.get(id(self))
            if ent is not None and ent is self and ctx.barrier_on:
                ctx.hits += 1
                ctx.violation(
                    "barrier.write", "slot %s of a published %s was "
                    "assigned (%r -> %r) during step %r" % (
                        name, type(self).__name__,
                        getattr(self, name, "<unset>"), value,
                        ctx.current_step), slot=name,
                    cls=type(self).__name__)
            object.__setattr__(self, name, value)
        return __setattr__
    for cname in SLOTTED:
        cls = getattr(repo.data, cname)
        probes.set(cls, "__setattr__", make(cls))
    ctx.current_step = None
    ctx.budget = core.Budget(repo.path)
    ctx.target("compare-order/0", "compare-order/1", "compare-order/2")
    ctx.target("alias/result-is-operand", "alias/shared-time-zone",
               "kind/TimePoint", "kind/Duration", "kind/TimeZone",
               "kind/TimeRecurrence", "kind/truncated")


# --------------------------------------------------------------------------

TRUNC_KW = [
    {"hour_of_day": 6}, {"minute_of_hour": 30},
    {"second_of_minute": 15}, {"hour_of_day": 18, "minute_of_hour": 5},
    {"day_of_month": 31}, {"day_of_year": 366}, {"day_of_week": 7},
    {"week_of_year": 53, "day_of_week": 1},
    {"day_of_month": 1, "hour_of_day": 0},
    {"hour_of_day": 12, "time_zone_hour": 5, "time_zone_minute": 30},
    {"month_of_year": 2, "day_of_month": 29},
    {"year": 85, "truncated_property": "year_of_century"},
]
FORMATS = ["CCYY-MM-DDThh:mm:ssZ", "CCYYDDDThhmm+0530", "CCYY-Www-D",
           "+XCCYY-MM-DDThh:mm:ss+hh:mm", "%Y-%m-%dT%H:%M:%S%z", "%j %s",
           "CCYYMMDDThh,ii-03", "hh:mm:ss,tt"]


# operations whose cost is unbounded in the distance between operands (member
# scans, unit-by-unit search): run under a logical step budget
BUDGETED = ("rec.valid", "rec.first_after", "trunc+tp", "tp+trunc",
            "tp.add_truncated", "rec.getitem", "any+any", "any-any",
            "any-any2")


class Program:
    def __init__(self, ctx, repo, seed, nsteps):
        self.ctx, self.repo = ctx, repo
        self.rng = random.Random(seed)
        self.nsteps = nsteps
        self.pool = []
        self.full = {}
        self.dumper = repo.dumpers.TimePointDumper()
        self.parser = repo.parsers.TimePointParser(allow_truncated=True)
        self.dparser = repo.parsers.DurationParser()
        self.rparser = repo.parsers.TimeRecurrenceParser()

    def publish(self, obj):
        """the workload now holds obj (and what it can reach through public
        attributes is observable state of obj)"""
        name = type(obj).__name__
        if name not in SLOTTED:
            return False
        if id(obj) in self.ctx.published:
            return False
        self.ctx.published[id(obj)] = obj
        return True

    @staticmethod
    def too_big(obj):
        """results are fed back into the pool, so magnitudes would grow
        exponentially (d*4*4...) and every later addition would walk
        millions of days; such values are still published and compared as
        operands of their step, but not kept as pool members"""
        name = type(obj).__name__
        if name in ("Duration", "TimeZone"):
            vals = [v for v in (obj._years, obj._months, obj._weeks,
                                obj._days) if v is not None]
            if any(abs(v) > 4000 for v in vals):
                return True
            small = [v for v in (obj._hours, obj._minutes, obj._seconds)
                     if v is not None]
            return any(abs(v) > 10 ** 8 for v in small)
        if name == "TimePoint":
            return obj._year is not None and abs(obj._year) > 15000
        if name == "TimeRecurrence":
            return any(x is not None and Program.too_big(x)
                       for x in (obj._start_point, obj._end_point,
                                 obj._duration))
        return False

    def add(self, obj):
        name = type(obj).__name__
        if name not in SLOTTED:
            return
        if self.too_big(obj):
            return
        self.publish(obj)
        if len(self.pool) >= 400:
            i = self.rng.randrange(len(self.pool))
            old = self.pool[i]
            self.pool[i] = obj
            self.full.pop(id(old), None)
        else:
            self.pool.append(obj)
        self.full[id(obj)] = snap_full(obj)
        self.ctx.cls("kind/" + name)
        if name == "TimePoint" and obj._truncated:
            self.ctx.cls("kind/truncated")

    def pick(self, *kinds, full_only=False):
        cands = [o for o in self.pool if type(o).__name__ in kinds]
        if full_only:
            cands = [o for o in cands if not o._truncated]
        return self.rng.choice(cands) if cands else None

    def seed_pool(self):
        rng, repo = self.rng, self.repo
        for _ in range(40):
            kw = gen.rand_tp(rng, MODE, year=gen.rand_year(rng, 1, 9998),
                             bias=0.7)
            self.add(repo.tp(kw))
        for kw in TRUNC_KW:
            kw = dict(kw)
            kw["truncated"] = True
            self.add(repo.TimePoint(**kw))
        for _ in range(25):
            self.add(repo.dur(gen.rand_exact_dur(rng)))
        for _ in range(10):
            self.add(repo.dur(gen.rand_nominal_dur(rng)))
        for off in gen.OFFSET_POOL[:10]:
            self.add(repo.TimeZone(hours=off[0], minutes=off[1]))
        self.add(repo.TimeZone(unknown=True))
        for _ in range(12):
            p = self.pick("TimePoint", full_only=True)
            d = repo.dur({"hours": rng.randint(1, 50)})
            n = rng.choice((None, 1, 3, 6))
            v = rng.random()
            try:
                if v < 0.4:
                    self.add(repo.TimeRecurrence(repetitions=n,
                                                 start_point=p, duration=d))
                elif v < 0.7:
                    self.add(repo.TimeRecurrence(repetitions=n, end_point=p,
                                                 duration=d))
                else:
                    self.add(repo.TimeRecurrence(
                        repetitions=n, start_point=p, end_point=p + d))
            except ValueError:
                pass

    # ---- the operation menu: each returns (name, operands, thunk)
    def choose(self):
        rng = self.rng
        repo = self.repo
        TP, DU, TZ, TR = "TimePoint", "Duration", "TimeZone", "TimeRecurrence"
        p = self.pick(TP)
        q = self.pick(TP)
        fp = self.pick(TP, full_only=True)
        fq = self.pick(TP, full_only=True)
        d = self.pick(DU, TZ)
        e = self.pick(DU)
        z = self.pick(TZ)
        r = self.pick(TR)
        n = rng.randint(-4, 4)
        fmt = rng.choice(FORMATS)
        trunc = [o for o in self.pool if type(o).__name__ == TP and
                 o._truncated and o._time_zone is not None]
        t = rng.choice(trunc) if trunc else None
        whole = fp if fp is not None and R.tp_is_integral(fp) and \
            fp._hour_of_day != 24 else None
        # operands for the "any" operations: favour the rare spellings
        # (zone-less truncated points, the 24:00 form)
        eod = [o for o in self.pool if type(o).__name__ == TP and
               o._hour_of_day == 24]
        ap = rng.choice(trunc) if trunc and rng.random() < 0.5 else p
        aq = rng.choice(eod) if eod and rng.random() < 0.5 else q
        def iop(a, b, op):
            """augmented assignment on a second name for `a`"""
            x = a
            if op == "+":
                x += b
            elif op == "-":
                x -= b
            elif op == "*":
                x *= b
            else:
                x //= b
            return x
        menu = [
            ("dur+=dur", (d, e), lambda: iop(d, e, "+")),
            ("dur-=dur", (e, d), lambda: iop(e, d, "-")),
            ("dur*=n", (d,), lambda: iop(d, n, "*")),
            ("dur//=n", (e,), lambda: iop(e, n or 2, "//")),
            ("tp+=dur", (fp, e), lambda: iop(fp, e, "+")),
            ("tp-=dur", (fp, d), lambda: iop(fp, d, "-")),
            ("any+=dur", (aq, d), lambda: iop(aq, d, "+")),
            ("rec+=dur", (r, e), lambda: iop(r, e, "+")),
            ("rec-=dur", (r, e), lambda: iop(r, e, "-")),
            ("tp.time_zone+=dur", (p, e), lambda: iop(p.time_zone, e, "+")),
            ("rec.duration+=dur", (r, e), lambda: iop(r.duration, e, "+")),
            ("rec.start_point+=dur", (r, e),
             lambda: iop(r.start_point, e, "+")),
            ("tp+dur", (fp, d), lambda: fp + d),
            ("dur+tp", (e, fp), lambda: e + fp),
            ("tp-dur", (fp, e), lambda: fp - e),
            ("tp-tp", (fp, fq), lambda: fp - fq),
            ("tp==", (p, q), lambda: p == q),
            ("any-any", (ap, aq), lambda: ap - aq),
            ("any-any2", (aq, ap), lambda: aq - ap),
            ("any<any", (ap, aq), lambda: ap < aq),
            ("any==any", (aq, ap), lambda: aq == ap),
            ("any+any", (ap, aq), lambda: ap + aq),
            ("any-dur", (aq, e), lambda: aq - e),
            ("any+dur", (aq, d), lambda: aq + d),
            ("any.add_months", (aq,), lambda: aq.add_months(n)),
            ("any.hash-str", (aq,), lambda: (hash(aq), str(aq))),
            ("any.to_tz", (ap, z), lambda: ap.to_time_zone(z)),
            ("tp!=", (fp, fq), lambda: fp != fq),
            ("tp<", (fp, fq), lambda: fp < fq),
            ("tp<=", (fp, fq), lambda: fp <= fq),
            ("tp>", (fp, fq), lambda: fp > fq),
            ("tp>=", (fp, fq), lambda: fp >= fq),
            ("tp.hash", (p,), lambda: hash(p)),
            ("oper.strftime", (aq,), lambda: self.oper().strftime(
                aq, rng.choice(("%A %d %b %Y", "%a", "%Y-%m-%d %H:%M:%S",
                                "%y%m%d %p")))),
            ("oper.date_format", (fp,), lambda: self.oper().date_format(
                rng.choice(("%d %B", "CCYY-DDD", "%s")), fp)),
            ("oper.date_shift", (fp,), lambda: self.oper().date_shift(
                fp, "P1M")),
            ("oper.date_diff", (fp, fq), lambda: self.oper().date_diff(
                fp, fq)),
            ("tp.str", (p,), lambda: str(p)),
            ("tp.str-override", (p,), lambda: p.__str__(
                override_custom_dump_format=True)),
            ("tp.repr", (p,), lambda: repr(p)),
            ("tp.strftime", (fp,), lambda: fp.strftime(
                "%Y-%m-%dT%H:%M:%S%z %j %s %F %X")),
            ("tp.to_time_zone", (fp, z), lambda: fp.to_time_zone(z)),
            ("tp.to_utc", (fp,), lambda: fp.to_utc()),
            ("tp.to_local", (fp,), lambda: fp.to_local_time_zone()),
            ("tp.to_cal", (fp,), lambda: fp.to_calendar_date()),
            ("tp.to_ord", (fp,), lambda: fp.to_ordinal_date()),
            ("tp.to_week", (fp,), lambda: fp.to_week_date()),
            ("tp.to_hms", (fp,), lambda: fp.to_hour_minute_second()),
            ("tp.get_dates", (fp,), lambda: (
                fp.get_calendar_date(), fp.get_ordinal_date(),
                fp.get_week_date(), fp.get_hour_minute_second(),
                fp.get_second_of_day(), fp.get_time_zone_utc())),
            ("tp.props", (p,), lambda: [
                getattr(p, a, None) for a in (
                    "num_expanded_year_digits", "year", "hour_of_day",
                    "truncated", "truncated_property", "dump_format",
                    "truncated_dump_format")]),
            ("tp.props2", (fp,), lambda: [
                getattr(fp, a) for a in (
                    "month_of_year", "week_of_year", "day_of_year",
                    "day_of_month", "day_of_week", "minute_of_hour",
                    "second_of_minute", "year_sign", "expanded_year_digits",
                    "century", "year_of_century", "year_of_decade",
                    "decade_of_century", "hour_of_day_decimal_string",
                    "minute_of_hour_decimal_string",
                    "second_of_minute_decimal_string",
                    "time_zone_minute_abs", "time_zone_hour_abs",
                    "time_zone_sign", "seconds_since_unix_epoch")]),
            ("tp.time_zone", (p,), lambda: p.time_zone),
            ("tp.get_props", (p,), lambda: p.get_props()),
            ("tp.tz_offset", (fp, fq), lambda: fp.get_time_zone_offset(fq)),
            ("tp.add_months", (fp,), lambda: fp.add_months(n)),
            ("tp.is_kind", (p,), lambda: (
                p.get_is_calendar_date(), p.get_is_ordinal_date(),
                p.get_is_week_date())),
            ("tp.trunc_names", (p,), lambda: (
                p.get_largest_truncated_property_name(),
                p.get_smallest_missing_property_name(),
                p.get_truncated_properties())),
            ("trunc+tp", (t, whole), lambda: t + whole),
            ("tp+trunc", (whole, t), lambda: whole + t),
            ("tp.add_truncated", (whole,), lambda: whole.add_truncated(
                hour_of_day=rng.randrange(24))),
            ("dur+dur", (d, e), lambda: d + e),
            ("dur-dur", (e, d), lambda: e - d),
            ("dur*n", (d,), lambda: d * n),
            ("n*dur", (e,), lambda: n * e),
            ("dur//n", (e,), lambda: e // (n or 2)),
            ("abs(dur)", (d,), lambda: abs(d)),
            ("dur.cmp", (d, e), lambda: (d == e, d != e, d < e, d <= e,
                                         d > e, d >= e)),
            ("dur.hash", (d,), lambda: hash(d)),
            ("dur.str", (d,), lambda: (str(d), repr(d), bool(d))),
            ("dur.to_days", (e,), lambda: e.to_days()),
            ("dur.to_weeks", (e,), lambda: e.to_weeks()),
            ("dur.lengths", (d,), lambda: (
                d.get_seconds(), d.get_days_and_seconds(), d.is_exact(),
                d.get_is_in_weeks())),
            ("dur.props", (d,), lambda: (d.years, d.months, d.weeks, d.days,
                                         d.hours, d.minutes, d.seconds)),
            ("tz.props", (z,), lambda: (z.unknown, str(z), hash(z))),
            ("rec.iter", (r,), lambda: list(itertools.islice(iter(r), 8))),
            ("rec.valid", (r, fp), lambda: r.get_is_valid(fp)),
            ("rec.next", (r, fp), lambda: r.get_next(fp)),
            ("rec.prev", (r, fp), lambda: r.get_prev(fp)),
            ("rec.first_after", (r, whole),
             lambda: r.get_first_after(whole)),
            ("rec.getitem", (r,), lambda: r[abs(n)]),
            ("rec+dur", (r, e), lambda: r + e),
            ("dur+rec", (e, r), lambda: e + r),
            ("rec-dur", (r, e), lambda: r - e),
            ("rec.cmp", (r,), lambda: (r == self.pick(TR), hash(r), str(r),
                                       repr(r))),
            ("rec.props", (r,), lambda: (r.repetitions, r.start_point,
                                         r.duration, r.end_point,
                                         r.min_point, r.max_point,
                                         r.format_number)),
            ("dumper.dump", (fp,), lambda: self.dumper.dump(fp, fmt)),
            ("dumper.strftime", (fp,), lambda: self.dumper.strftime(
                fp, "%Y%m%dT%H%M%S%z")),
            ("parse(str(tp))", (p,), lambda: self.parser.parse(str(p))),
            ("parse(str(dur))", (e,), lambda: self.dparser.parse(str(e))),
            ("parse(str(rec))", (r,), lambda: self.rparser.parse(str(r))),
            ("rec(new)", (fp, e), lambda: repo.TimeRecurrence(
                repetitions=rng.choice((None, 2, 5)), start_point=fp,
                duration=abs(e))),
            ("rec(new4)", (fp, e), lambda: repo.TimeRecurrence(
                repetitions=rng.choice((None, 2, 5)), end_point=fp,
                duration=abs(e))),
        ]
        while True:
            name, operands, thunk = rng.choice(menu)
            if all(o is not None for o in operands):
                return name, operands, thunk

    def oper(self):
        """one long-lived DateTimeOperator (its constructor selects the
        Gregorian calendar, which is the mode of this check)"""
        if getattr(self, "_oper", None) is None:
            self._oper = self.repo.datetimeoper.DateTimeOperator()
        return self._oper

    def rare_seeds(self):
        """states ordinary generation rarely reaches: a negative year with no
        expanded digits (str() of it raises OverflowError), year 0, 1 and 3
        expanded digits, an own dump format, decimal forms"""
        repo = self.repo
        base = {"month_of_year": 3, "day_of_month": 1, "hour_of_day": 6,
                "minute_of_hour": 30, "second_of_minute": 15,
                "time_zone_hour": 0, "time_zone_minute": 0}
        for extra in ({"year": -7}, {"year": 0}, {"year": -7,
                      "num_expanded_year_digits": 2},
                      {"year": 12345, "num_expanded_year_digits": 1},
                      {"year": 2000, "num_expanded_year_digits": 3},
                      {"year": 2000, "dump_format": "CCYYMMDDThhmmZ"},
                      {"year": 1999, "time_zone_hour": -3,
                       "time_zone_minute": -30}):
            self.add(repo.TimePoint(**dict(base, **extra)))
        self.add(repo.TimePoint(year=-4, day_of_year=366, hour_of_day=24))
        self.add(repo.TimePoint(year=-400, week_of_year=1, day_of_week=1,
                                hour_of_day=6, hour_of_day_decimal=0.5))
        neg = repo.TimePoint(**dict(base, year=-3))
        self.add(repo.TimeRecurrence(repetitions=3, start_point=neg,
                                     duration=repo.Duration(years=1)))
        # a negative year, no expanded digits, but a format of its own that
        # can print it (str(p, override...) cannot)
        self.add(repo.TimePoint(**dict(base, year=-44,
                                       dump_format="YY-MM-DDThh:mm")))
        # one instant in the New-Year week, held in all three representations
        # (the week-year differs from the calendar year), each with a format
        # of its own that spells a literal offset
        for hh, zone in ((3, "+05:30"), (22, "-03:00")):
            tail = {"hour_of_day": hh, "time_zone_hour": 0,
                    "time_zone_minute": 0}
            self.add(repo.TimePoint(
                year=2019, month_of_year=12, day_of_month=30,
                dump_format="CCYY-MM-DDThh:mm" + zone, **tail))
            self.add(repo.TimePoint(
                year=2020, week_of_year=1, day_of_week=1,
                dump_format="CCYY-Www-DThh:mm" + zone, **tail))
            self.add(repo.TimePoint(
                year=2019, day_of_year=364,
                dump_format="CCYY-DDDThh:mm" + zone, **tail))
        # series bounded only by the min_point / max_point keywords
        a = repo.TimePoint(**dict(base, year=2001))
        day = repo.Duration(days=1)
        self.add(repo.TimeRecurrence(start_point=a, duration=day,
                                     max_point=a + repo.Duration(days=5,
                                                                 hours=12)))
        self.add(repo.TimeRecurrence(end_point=a, duration=day,
                                     min_point=a - repo.Duration(days=3,
                                                                 hours=6)))
        self.add(repo.TimeRecurrence(
            repetitions=9, start_point=a, duration=repo.Duration(hours=6),
            min_point=a + repo.Duration(hours=7),
            max_point=a + repo.Duration(hours=31)))

    def unary_sweep(self):
        """every looking-at operation on every seeded value, once, under
        the same snapshot comparison as the random steps"""
        itertools_islice = itertools.islice
        for o in list(self.pool):
            kind = type(o).__name__
            ops = [("str", lambda o=o: str(o)), ("repr", lambda o=o: repr(o)),
                   ("hash", lambda o=o: hash(o)),
                   ("eq-self", lambda o=o: o == o)]
            if kind == "TimePoint":
                ops += [("str-override", lambda o=o: o.__str__(
                            override_custom_dump_format=True)),
                        ("get_props", lambda o=o: o.get_props()),
                        ("to_utc", lambda o=o: o.to_utc()),
                        ("to_week", lambda o=o: o.to_week_date()),
                        ("to_ord", lambda o=o: o.to_ordinal_date()),
                        ("to_cal", lambda o=o: o.to_calendar_date()),
                        ("epoch", lambda o=o: o.seconds_since_unix_epoch),
                        ("copy+0", lambda o=o: o + self.repo.Duration()),
                        ("strftime", lambda o=o: o.strftime("%Y %j %s")),
                        ("oper.strftime", lambda o=o: self.oper().strftime(
                            o, "%A %d %b %Y"))]
            elif kind in ("Duration", "TimeZone"):
                ops += [("to_days", lambda o=o: o.to_days()),
                        ("secs", lambda o=o: o.get_seconds()),
                        ("neg", lambda o=o: -1 * o), ("abs", lambda o=o: abs(o))]
            elif kind == "TimeRecurrence":
                def queries(o=o):
                    pts = list(itertools_islice(iter(o), 40))
                    out = []
                    half = self.repo.Duration(hours=1, minutes=30)
                    for p in pts[:2] + pts[-2:]:
                        for q in (p, p + half, p - half):
                            out.append(o.get_is_valid(q))
                            out.append(o.get_next(q))
                            out.append(o.get_prev(q))
                            if o.start_point is not None:
                                out.append(o.get_first_after(q))
                    return out
                ops += [("queries", queries),
                        ("iter", lambda o=o: list(itertools_islice(iter(o),
                                                                   4))),
                        ("props", lambda o=o: (o.start_point, o.end_point,
                                               o.duration, o.repetitions))]
            for name, thunk in ops:
                self.step(-1, "sweep." + name, (o,), thunk)
        self.compare_all(full=True)

    def first_seeds(self):
        """before anything else has been printed in this process: points
        with 1, 3 and 4 extra year digits (in growing order), each with a
        format of its own that spells them (+X)"""
        repo = self.repo
        for nd in (1, 3, 4, 1, 3):
            self.add(repo.TimePoint(
                year=2000 + nd, month_of_year=3, day_of_month=1,
                hour_of_day=6, minute_of_hour=30, second_of_minute=15,
                time_zone_hour=0, time_zone_minute=0,
                num_expanded_year_digits=nd,
                dump_format="+XCCYY-MM-DDThh:mm:ssZ"))
        self.ctx.current_step = (-1, "first-seeds")
        self.compare_all(full=True)

    def run(self):
        ctx = self.ctx
        self.first_seeds()
        self.seed_pool()
        self.rare_seeds()
        self.unary_sweep()
        for step in range(self.nsteps):
            name, operands, thunk = self.choose()
            self.step(step, name, operands, thunk)
            if step % 10 == 9:
                self.compare_all(full=(step % 100 == 99))
        self.compare_all(full=True)

    def step(self, step, name, operands, thunk):
        ctx = self.ctx
        if True:
            ctx.current_step = (step, name)
            before = [snap_slots(o) for o in operands]
            ctx.counters["steps"] += 1
            result = None
            ok = False
            try:
                if name in BUDGETED:
                    result, _ = ctx.budget.run(400000, thunk)
                else:
                    result = thunk()
                ok = True
            except core.BudgetExceeded:
                ctx.ev("op.budget")
            except Exception:
                ctx.ev("op.raised")
            # the operands must be unchanged, whatever happened
            for o, b in zip(operands, before):
                ctx.counters["snapshot.compared"] += 1
                if snap_slots(o) != b:
                    ctx.violation("snapshot.operand", "operand %s of step %r "
                                  "changed: %r -> %r" % (
                                      type(o).__name__, ctx.current_step, b,
                                      snap_slots(o)))
            if ok:
                ctx.nontrivial((name, repr(before)))
                flat = result if isinstance(result, (list, tuple)) \
                    else (result,)
                for res in flat:
                    if type(res).__name__ not in SLOTTED:
                        continue
                    if any(res is o for o in operands):
                        ctx.cls("alias/result-is-operand")
                    elif any(getattr(res, "_time_zone", 0) is
                             getattr(o, "_time_zone", 1) or
                             getattr(res, "_time_zone", 0) is o
                             for o in operands):
                        ctx.cls("alias/shared-time-zone")
                    self.add(res)

    def compare_all(self, full):
        ctx = self.ctx
        order = list(self.pool)
        if full:
            # looking at the values in another order must not matter either
            self.passes = getattr(self, "passes", 0) + 1
            if self.passes % 3 == 1:
                order.reverse()
            elif self.passes % 3 == 2:
                random.Random(self.passes).shuffle(order)
            ctx.cls("compare-order/%d" % (self.passes % 3))
        for o in order:
            old = self.full.get(id(o))
            if old is None:
                continue
            ctx.counters["snapshot.compared"] += 1
            new = snap_full(o) if full else (snap_slots(o),) + old[1:]
            if new != old:
                ctx.violation("snapshot.pool", "pool member %s changed after "
                              "step %r: %r -> %r" % (
                                  type(o).__name__, ctx.current_step, old,
                                  new))
                self.full[id(o)] = new


def run_case(ctx, repo, case):
    repo.set_mode(MODE)
    ctx.published.clear()
    prog = Program(ctx, repo, case["seed"], case["steps"])
    prog.run()
    ctx.extra["pool_size_last"] = len(prog.pool)
    ctx.published.clear()


def workload(ctx, repo):
    nprog, steps = (4, 2500) if ctx.tier == "quick" else (6, 10000)
    for k in range(nprog):
        case = {"op": "program", "seed": ctx.rng.randrange(10**9),
                "steps": steps}
        ctx.case = case
        ctx.sample(case)
        run_case(ctx, repo, case)
    ctx.extra["barrier_hits"] = ctx.hits
