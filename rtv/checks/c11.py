"""C11 - duration arithmetic, equality, ordering and hashing are coherent.

Monitors: reference-key postconditions on every Duration operator and
length accessor (proper Durations only; the TimeZone subclass is excluded),
recording wrappers on the comparisons and hash with an online oracle
(reference key (years, months, exact seconds); rough length for ordering)
and an offline consistency checker over the recorded comparison log.  The
algebraic laws are driven on the real operators with the monitors attached."""
import collections
from fractions import Fraction as F

from .. import gen
from .. import refmodel as R

RULE = ("cases = pairs and triples of Durations (week form and unit form, "
        "mixed signs, nominal years/months, integer components for exact "
        "identities, decimal components within 1e-9 relative) and integer "
        "multipliers -6..6, plus deliberately re-spelled equal durations "
        "(P1W, P7D, PT168H, PT604800S, P1DT-24H vs empty), under each "
        "calendar mode for the ordering rule; non-trivial = the operands' "
        "component tuples differ and at least one is non-empty; distinct by "
        "(mode, a-components, b-components)")
RUN_REPO_SUITE = True   # thorough tier: repo tests under these monitors
DECIDING = ["op.post", "cmp.post", "hash.post", "law"]
MIN_EVALS = {"op.post": 20000, "cmp.post": 20000, "hash.post": 3000,
             "law": 10000}
ASSUMPTIONS = ["integer-component durations: identities exact; decimal "
               "components: exact-second keys within 1e-9 relative"]
TOLREL = F(1, 10**9)


def key(d):
    y, m = R.dur_nominal(d)
    return (y, m, R.dur_len(d))


def integral(d):
    return R.dur_is_integral(d)


def close(a, b, exact):
    if exact:
        return a == b
    return abs(a - b) <= TOLREL * max(1, abs(a), abs(b))


def keys_close(ka, kb, exact):
    return ka[0] == kb[0] and ka[1] == kb[1] and close(ka[2], kb[2], exact)


def rough(mode, d):
    y, m, s = key(d)
    return (y * R.year_len(mode, 2001 if mode != "gregorian" else 2001)
            + m * 30) * 86400 + s


def install(ctx, repo, probes):
    Dur = repo.Duration
    ctx.cmp_events = []
    ctx.hashes = {}

    def proper(*xs):
        return all(isinstance(x, Dur) and
                   not isinstance(x, repo.TimeZone) for x in xs)

    def fail(name, msg, **kw):
        ctx.violation("op." + name, msg, **kw)

    def post_add(snap, args, kwargs, res, exc):
        a, b = args[0], args[1]
        if not proper(a, b):
            return
        ctx.ev("op.post")
        if exc is not None:
            return fail("add.raised", "%r + %r raised %r" % (
                R.dur_key(a), R.dur_key(b), exc))
        ex = integral(a) and integral(b)
        ka, kb = key(a), key(b)
        want = (ka[0] + kb[0], ka[1] + kb[1], ka[2] + kb[2])
        if not proper(res) or not keys_close(key(res), want, ex):
            fail("add", "%r + %r = %r, reference key %r" % (
                R.dur_key(a), R.dur_key(b), R.dur_key(res), want))
    probes.wrap(Dur, "__add__", post_add)

    def post_sub(snap, args, kwargs, res, exc):
        a, b = args[0], args[1]
        if not proper(a, b):
            return
        ctx.ev("op.post")
        if exc is not None:
            return fail("sub.raised", "%r - %r raised %r" % (
                R.dur_key(a), R.dur_key(b), exc))
        ex = integral(a) and integral(b)
        ka, kb = key(a), key(b)
        want = (ka[0] - kb[0], ka[1] - kb[1], ka[2] - kb[2])
        if not proper(res) or not keys_close(key(res), want, ex):
            fail("sub", "%r - %r = %r, reference key %r" % (
                R.dur_key(a), R.dur_key(b), R.dur_key(res), want))
    probes.wrap(Dur, "__sub__", post_sub)

    def post_mul(snap, args, kwargs, res, exc):
        a, n = args[0], args[1]
        if not proper(a) or not isinstance(n, int) or isinstance(n, bool):
            return
        ctx.ev("op.post")
        if exc is not None:
            return fail("mul.raised", "%r * %r raised %r" % (
                R.dur_key(a), n, exc))
        ka = key(a)
        want = (ka[0] * n, ka[1] * n, ka[2] * n)
        if not proper(res) or not keys_close(key(res), want, integral(a)):
            fail("mul", "%r * %d = %r, reference key %r" % (
                R.dur_key(a), n, R.dur_key(res), want))
    probes.wrap(Dur, "__mul__", post_mul)
    probes.wrap(Dur, "__rmul__", post_mul)

    def post_floordiv(snap, args, kwargs, res, exc):
        a, n = args[0], args[1]
        if not proper(a) or not isinstance(n, int) or n == 0:
            return
        ctx.ev("op.post")
        if exc is not None:
            return fail("floordiv.raised", "%r // %r raised %r" % (
                R.dur_key(a), n, exc))
        want = tuple(None if v is None else v // n for v in R.dur_key(a))
        got = R.dur_key(res)
        if not all((g is None and w is None) or
                   (g is not None and w is not None and
                    close(F(g), F(w), integral(a)))
                   for g, w in zip(got, want)):
            fail("floordiv", "%r // %d = %r, expected %r" % (
                R.dur_key(a), n, got, want))
    probes.wrap(Dur, "__floordiv__", post_floordiv)

    def post_abs(snap, args, kwargs, res, exc):
        a = args[0]
        if not proper(a):
            return
        ctx.ev("op.post")
        want = tuple(None if v is None else abs(v) for v in R.dur_key(a))
        if exc is not None or R.dur_key(res) != want:
            fail("abs", "abs(%r) = %r" % (R.dur_key(a), res))
    probes.wrap(Dur, "__abs__", post_abs)

    def post_to_days(snap, args, kwargs, res, exc):
        a = args[0]
        if not proper(a):
            return
        ctx.ev("op.post")
        if exc is not None or res._weeks is not None or key(res) != key(a):
            fail("to_days", "to_days(%r) = %r" % (R.dur_key(a), res))
    probes.wrap(Dur, "to_days", post_to_days)

    def post_to_weeks(snap, args, kwargs, res, exc):
        a = args[0]
        if not proper(a):
            return
        ctx.ev("op.post")
        if a._weeks is not None:
            ok = exc is None and res._weeks == a._weeks
        else:
            w = a._days // 7
            # Duration(weeks=0) is the empty unit-form duration
            ok = exc is None and (res._weeks == w if w else
                                  key(res) == (0, 0, 0))
        if not ok:
            fail("to_weeks", "to_weeks(%r) = %r" % (R.dur_key(a), res))
    probes.wrap(Dur, "to_weeks", post_to_weeks)

    def post_seconds(snap, args, kwargs, res, exc):
        a = args[0]
        if not proper(a):
            return
        ctx.ev("op.post")
        mode = R.canon(repo.CALENDAR.mode)
        want = rough(mode, a)
        if exc is not None or not close(F(res), want, integral(a)):
            fail("get_seconds", "get_seconds(%r) = %r, reference %s (mode "
                 "%s)" % (R.dur_key(a), res, want, mode))
    probes.wrap(Dur, "get_seconds", post_seconds)

    def post_das(snap, args, kwargs, res, exc):
        a = args[0]
        if not proper(a):
            return
        ctx.ev("op.post")
        mode = R.canon(repo.CALENDAR.mode)
        want = rough(mode, a)
        ok = exc is None
        if ok:
            days, secs = res
            ok = close(F(days) * 86400 + F(secs), want, integral(a)) and \
                0 <= secs <= 86400 and (secs < 86400 or not integral(a)) \
                and F(days).denominator == 1
        if not ok:
            fail("get_days_and_seconds", "get_days_and_seconds(%r) = %r, "
                 "reference total %s (mode %s)" % (R.dur_key(a), res, want,
                                                   mode))
    probes.wrap(Dur, "get_days_and_seconds", post_das)

    def make_cmp(op):
        def post(snap, args, kwargs, res, exc):
            a, b = args[0], args[1]
            if not proper(a, b):
                return
            ctx.ev("cmp.post")
            mode = R.canon(repo.CALENDAR.mode)
            ka, kb = R.dur_key(a), R.dur_key(b)
            if exc is not None:
                ctx.violation("cmp.raised", "%r %s %r raised %r" % (
                    ka, op, kb, exc))
                return
            ex = integral(a) and integral(b)
            if op in ("eq", "ne"):
                ra, rb = key(a), key(b)
                same = ra == rb
                if not ex and not same and keys_close(ra, rb, False):
                    return       # float noise: nothing demanded
                want = same if op == "eq" else not same
            else:
                ra, rb = rough(mode, a), rough(mode, b)
                if not ex and close(ra, rb, False):
                    # decimal values within float noise of each other (or
                    # of equal length spelled in different units: 0.1 s
                    # beside P1D / PT24H): the order of two such floats is
                    # not determined
                    return
                want = {"lt": ra < rb, "le": ra <= rb, "gt": ra > rb,
                        "ge": ra >= rb}[op]
            ctx.cmp_events.append((mode, ka, kb, op, res, ex))
            if res is not want:
                ctx.violation("cmp." + op, "%r %s %r returned %r, reference "
                              "says %r (mode %s)" % (ka, op, kb, res, want,
                                                     mode), a=ka, b=kb)
        return post
    for op in ("eq", "lt", "le", "gt", "ge"):
        probes.wrap(Dur, "__%s__" % op, make_cmp(op))

    def ne(self, other):
        return object.__ne__(self, other)
    probes.set(Dur, "__ne__", ne)
    probes.wrap(Dur, "__ne__", make_cmp("ne"))
    # TimeZone defines its own __hash__; keep its class untouched

    def post_hash(snap, args, kwargs, res, exc):
        a = args[0]
        if not proper(a):
            return
        ctx.ev("hash.post")
        if exc is not None:
            ctx.violation("hash.raised", "hash(%r) raised %r" % (
                R.dur_key(a), exc))
            return
        if not integral(a):
            return
        k = key(a)
        slot = ctx.hashes.setdefault(k, (res, R.dur_key(a)))
        if slot[0] != res:
            ctx.violation("hash.differs", "equal durations %r and %r hash "
                          "differently" % (slot[1], R.dur_key(a)))
    probes.wrap(Dur, "__hash__", post_hash)
    ctx.target("respelled-equal", "nominal-vs-exact", "week-form",
               "mixed-sign", "decimal", "derived-operand/to_weeks",
               "derived-operand/to_days")
    for mode in R.MODES:
        ctx.target("order/" + mode)


def run_case(ctx, repo, case):
    mode = case["mode"]
    repo.set_mode(mode, case)
    try:
        ds = [repo.dur(kw) for kw in case["durs"]]
        Dur = repo.Duration
        # the object must denote what the keywords spell (a week is 7 days,
        # whatever else is given beside it)
        for kw, d in zip(case["durs"], ds):
            ctx.ev("ctor.check")
            want = (kw.get("years") or 0, kw.get("months") or 0,
                    sum(F(kw.get(u) or 0) * k for u, k in (
                        ("weeks", 604800), ("days", 86400), ("hours", 3600),
                        ("minutes", 60), ("seconds", 1))))
            got = tuple(R.dur_nominal(d)) + (R.dur_len(d),)
            if got[:2] != want[:2] or abs(got[2] - want[2]) > F(1, 10 ** 6) \
                    or (integral(d) and got[2] != want[2]):
                ctx.violation("ctor.length", "Duration(**%r) denotes %r, the "
                              "keywords spell %r" % (kw, got, want))
        # operands that come out of conversions / arithmetic, not only from
        # the constructor
        for i, how in (case.get("derive") or {}).items():
            i = int(i)
            if i < len(ds):
                d = ds[i]
                ds[i] = {"to_weeks": lambda: d.to_weeks()
                         if d._weeks is None and not (d._years or d._months)
                         else d,
                         "to_days": lambda: d.to_days(),
                         "x1": lambda: d * 1, "abs": lambda: abs(d),
                         "neg-neg": lambda: -1 * (-1 * d),
                         "+0": lambda: d + Dur()}[how]()
                ctx.cls("derived-operand/" + how)
        empty = Dur()
        ex = all(integral(d) for d in ds)

        def same(x, y, what):
            ctx.ev("law")
            if ex:
                ok = (x == y) is True and key(x) == key(y) and \
                    hash(x) == hash(y)
            else:
                ok = keys_close(key(x), key(y), False)
            if not ok:
                ctx.violation("law." + what, "%s fails for %r: %r vs %r" % (
                    what, case["durs"], R.dur_key(x), R.dur_key(y)))
        a = ds[0]
        b = ds[1 % len(ds)]
        c = ds[2 % len(ds)]
        same(a + b, b + a, "commutativity")
        same((a + b) + c, a + (b + c), "associativity")
        same(a + empty, a, "identity")
        same(empty + a, a, "identity")
        z = a + (-1 * a)
        ctx.ev("law")
        if (z == empty) is True and hash(z) != hash(empty):
            ctx.violation("law.inverse-hash", "d + (-1*d) equals the empty "
                          "duration but hashes differently for %r" % (
                              case["durs"][0],))
        if z or (z == empty) is not True or key(z) != (0, 0, 0):
            ctx.violation("law.inverse", "d + (-1*d) is not empty for %r: "
                          "%r" % (case["durs"][0], R.dur_key(z)))
        same(a - b, a + (-1 * b), "subtraction")
        n = case.get("n", 3)
        acc = empty
        for _ in range(abs(n)):
            acc = acc + (a if n > 0 else -1 * a)
        same(n * a, acc, "n-fold")
        same(a * n, n * a, "rmul")
        abs(a)
        a.to_days()
        a.get_seconds()
        a.get_days_and_seconds()
        if a._weeks is None and a._days is not None:
            a.to_weeks()
        if n:
            a // n
        for x in ds:
            hash(x)
            for y in ds:
                # whatever the library calls equal must hash equally
                ctx.ev("law")
                if (x == y) is True and hash(x) != hash(y):
                    ctx.violation("law.eq-hash", "%r == %r but their hashes "
                                  "differ" % (R.dur_key(x), R.dur_key(y)))
                x == y
                x != y
                x < y
                x <= y
                x > y
                x >= y
                if R.dur_key(x) != R.dur_key(y) and (x or y):
                    ctx.nontrivial((mode, R.dur_key(x), R.dur_key(y)))
        ctx.cls("order/" + mode)
        if case.get("tag"):
            ctx.cls(case["tag"])
        for d in ds:
            if d._weeks is not None:
                ctx.cls("week-form")
            elif not integral(d):
                ctx.cls("decimal")
            else:
                vals = [v for v in R.dur_key(d) if v]
                if any(v > 0 for v in vals) and any(v < 0 for v in vals):
                    ctx.cls("mixed-sign")
    finally:
        repo.set_mode("gregorian")


RESPELLED = [
    [{"years": 1, "months": -12}, {}, {"years": 2, "months": -24},
     {"years": -1, "months": 12, "days": 2}, {"days": 2}],
    [{"weeks": 3}, {"weeks": -3}, {"days": 21}, {"weeks": 0}],
    [{"weeks": 1}, {"days": 7}, {"hours": 168}, {"seconds": 604800},
     {"minutes": 10080}],
    [{"days": 1, "hours": -24}, {}, {"years": 0}, {"weeks": 0},
     {"minutes": 1, "seconds": -60}],
    [{"days": 1}, {"hours": 24}, {"minutes": 1440}, {"seconds": 86400},
     {"hours": 23, "minutes": 60}],
    [{"hours": 1}, {"minutes": 60}, {"seconds": 3600},
     {"minutes": 59, "seconds": 60}],
    [{"weeks": -2}, {"days": -14}, {"hours": -336}],
    [{"years": 1}, {"months": 12}, {"days": 365}, {"days": 360},
     {"days": 366}],
    [{"months": 1}, {"days": 30}, {"days": 31}, {"weeks": 4},
     {"hours": 720}],
    [{"years": 1, "days": 1}, {"years": 1, "hours": 24},
     {"days": 366}, {"months": 12, "days": 1}],
    # magnitudes near the top of what a float still holds exactly (2**53 s
    # is 285 million years): equal only when the totals are equal
    [{"days": 20000000000}, {"hours": 480000000000},
     {"days": 20000000000, "seconds": 0}, {"weeks": 2857142857, "days": 1}],
    [{"days": 20000000000, "seconds": 1}, {"days": 20000000000},
     {"days": 20000000000, "seconds": -1}, {"hours": 480000000000,
                                            "seconds": 1}],
    # a unit keyword given as None is an absent unit; standardize=True only
    # carries exact units upwards
    [{"weeks": 2, "days": None, "hours": 1}, {"days": 14, "hours": 1},
     {"hours": 337}, {"weeks": 2, "hours": 1}],
    [{"weeks": 1, "hours": 30, "standardize": True}, {"days": 8, "hours": 6},
     {"weeks": 1, "days": 1, "hours": 6}, {"hours": 198}],
    [{"weeks": -1, "hours": -30, "standardize": True}, {"hours": -198},
     {"days": -8, "hours": -6}],
    [{"weeks": 1, "days": 1, "hours": -1}, {"days": 8, "hours": -1},
     {"hours": 191}, {"weeks": 1, "hours": 23}],
    [{"weeks": 5, "months": 1, "days": -1}, {"months": 1, "days": 34},
     {"months": 1, "weeks": 4, "hours": 144}],
    # a full minute of seconds / hour of minutes / day of hours written in
    # the lower unit (23:59:60 is a whole day)
    [{"hours": 23, "minutes": 59, "seconds": 60}, {"days": 1}, {"hours": 24},
     {"minutes": 1440}],
    [{"days": 2, "hours": 23, "minutes": 59, "seconds": 60}, {"days": 3},
     {"hours": 72}, {"days": 2, "hours": 24}],
    [{"hours": 47, "minutes": 59, "seconds": 60}, {"days": 2},
     {"days": 1, "hours": 23, "minutes": 60}],
    [{"minutes": 59, "seconds": 60}, {"hours": 1}, {"seconds": 3600}],
    [{"hours": -23, "minutes": -59, "seconds": -60}, {"days": -1},
     {"hours": -24}],
    [{"months": 1, "hours": 23, "minutes": 59, "seconds": 60},
     {"months": 1, "days": 1}, {"months": 1, "hours": 24}],
    # decimal seconds beside whole days spelled in different units
    [{"days": 1, "seconds": 0.1}, {"hours": 24, "seconds": 0.1},
     {"minutes": 1440, "seconds": 0.1}, {"days": 1, "seconds": 0.1}],
    [{"days": 3, "seconds": 0.3}, {"hours": 72, "seconds": 0.3},
     {"days": 2, "hours": 24, "seconds": 0.3}],
    [{"weeks": 1}, {"days": 7, "seconds": 0.7}, {"hours": 168,
                                                  "seconds": 0.7}],
    # neighbours of a week-form duration within the same day (either side)
    [{"weeks": 1}, {"days": 7, "hours": 1}, {"days": 7, "seconds": 1},
     {"days": 6, "hours": 23}],
    [{"days": 7, "hours": 1}, {"weeks": 1}, {"hours": 169},
     {"days": 7, "minutes": 1}],
    [{"weeks": -1}, {"days": -7, "hours": -1}, {"days": -7, "seconds": 1},
     {"days": -6, "hours": -23}],
    [{"weeks": 52}, {"days": 364, "seconds": 86399}, {"hours": 8737},
     {"days": 364, "seconds": 0.5}],
    [{"weeks": 0}, {"seconds": 1}, {"hours": 23}, {"seconds": -1}],
    [{"weeks": 2, "minutes": 30, "seconds": -1800}, {"weeks": 2},
     {"days": 14}, {"weeks": 2, "days": 0}],
]


def rand_dur(rng, integral_only):
    v = rng.random()
    if v < 0.55:
        return gen.rand_exact_dur(rng, integral=integral_only)
    if v < 0.85:
        return gen.rand_nominal_dur(rng)
    return {"weeks": rng.randint(-60, 60)}


def workload(ctx, repo):
    rng = ctx.rng
    for mode in R.MODES:
        for group in RESPELLED:
            tag = "respelled-equal" if "years" not in str(group) and \
                "months" not in str(group) else "nominal-vs-exact"
            for i in range(len(group)):
                durs = group[i:] + group[:i]
                case = {"op": "laws", "mode": mode, "durs": durs[:4],
                        "n": (i % 5) - 2, "tag": tag}
                ctx.case = case
                run_case(ctx, repo, case)
    n = 1500 if ctx.tier == "quick" else 6000
    for k in range(n):
        mode = R.MODES[k % 4] if k % 2 else "gregorian"
        integral_only = k % 3 != 0
        durs = [rand_dur(rng, integral_only)
                for _ in range(rng.choice((2, 3, 3, 4)))]
        if k % 4 == 0:
            # include a re-spelling of the first duration
            d0 = repo.dur(durs[0])
            if d0._weeks is None and R.dur_is_integral(d0):
                total = int(R.dur_len(d0))
                durs.append({"years": d0._years, "months": d0._months,
                             "seconds": total})
        case = {"op": "laws", "mode": mode, "durs": durs,
                "n": rng.randint(-6, 6)}
        if k % 3 == 1:
            case["derive"] = {str(rng.randrange(len(durs))): rng.choice(
                ("to_weeks", "to_weeks", "to_days", "x1", "abs", "neg-neg",
                 "+0"))}
        if k % 9 == 4:
            j = rng.randrange(len(durs))
            durs[j] = dict(durs[j], standardize=True)
        if k % 7 == 2:
            # the weeks keyword beside other units (either sign)
            j = rng.randrange(len(durs))
            if "weeks" not in durs[j]:
                durs[j] = dict(durs[j], weeks=rng.choice((1, -1, 2, 5, -3)))
        ctx.case = case
        if k % 307 == 0:
            ctx.sample(case)
        run_case(ctx, repo, case)


def finish(ctx, repo):
    """offline consistency of the recorded comparison log (no reference)"""
    ctx.case = {"op": "offline-consistency"}
    rel = collections.defaultdict(dict)
    for (mode, ka, kb, op, res, ex) in ctx.cmp_events:
        if ex:
            rel[(mode, ka, kb)][op] = res
    npairs = 0
    for (mode, ka, kb), ops in rel.items():
        npairs += 1
        rev = rel.get((mode, kb, ka), {})
        if "eq" in ops and "ne" in ops and ops["eq"] is ops["ne"]:
            ctx.violation("offline.ne", "== and != agree on %r, %r" % (ka, kb))
        if "eq" in ops and "eq" in rev and ops["eq"] is not rev["eq"]:
            ctx.violation("offline.symmetry", "== not symmetric on %r, %r" % (
                ka, kb))
        if "lt" in ops and "gt" in rev and ops["lt"] is not rev["gt"]:
            ctx.violation("offline.converse", "a<b vs b>a on %r, %r" % (
                ka, kb))
        if "le" in ops and "gt" in ops and ops["le"] is ops["gt"]:
            ctx.violation("offline.le", "<= is not the complement of > on "
                          "%r, %r" % (ka, kb))
        if "ge" in ops and "lt" in ops and ops["ge"] is ops["lt"]:
            ctx.violation("offline.ge", ">= is not the complement of < on "
                          "%r, %r" % (ka, kb))
        if ops.get("lt") and ops.get("gt"):
            ctx.violation("offline.both", "a<b and a>b on %r, %r" % (ka, kb))
        if ops.get("eq") and (ops.get("lt") or ops.get("gt")):
            ctx.violation("offline.eq-strict", "a==b and a<b or a>b on %r, "
                          "%r" % (ka, kb))
    ctx.ev("offline.pairs", npairs)
    del ctx.cmp_events[:]
