"""C04 - subtracting time points inverts addition.

Monitor: postcondition on TimePoint.__sub__ (TimePoint branch): exact
Duration, length = difference of reference instants, component shape.  The
identities (a-b) == -(b-a), b+(a-b) == a, (p+d)-p == d are evaluated by the
workload on the real operators while the monitors stay attached."""
from fractions import Fraction as F

from .. import core
from .. import gen
from .. import refmodel as R
from ..regime import TOL, pair_exact_pts, add_stays_integral, shape_ok

RULE = ("cases = (mode, a, b) pairs: near pairs from clusters around one "
        "instant (0 .. +-1 D apart, re-spelled in random representations / "
        "offsets / forms incl. 24:00) and far pairs (centuries to +-6000 "
        "years, across year 0), either order; plus (p, exact d) for "
        "(p+d)-p == d; non-trivial = operands differ in spelling and the "
        "difference needs a borrow or crosses a day/year boundary per the "
        "reference; distinct by (mode, a-fields, b-fields)")
RUN_REPO_SUITE = True   # thorough tier: repo tests under these monitors
DECIDING = ["sub.post", "identity.neg", "identity.addback", "identity.addsub"]
MIN_EVALS = {"sub.post": 5000, "identity.addback": 1500,
             "identity.addsub": 800}
ASSUMPTIONS = [
    "exact regime (integral fields, integer re-zoning): length and shape "
    "demanded exactly and identities by ==; tolerance regime: length within "
    "1e-6 s, identities by instant within 1e-6 s, shape not demanded",
]


# regression case of a repaired defect (known_findings.txt, fixed: C04): two
# decimal-hour points at one instant used to recurse until RecursionError
REGRESSION_CASES = [{
    "op": "pair", "mode": "366day",
    "a": {"year": 7059, "week_of_year": 49, "day_of_week": 6,
          "hour_of_day": 3, "hour_of_day_decimal": 0.9830555555555556,
          "time_zone_hour": 99, "time_zone_minute": 59},
    "b": {"year": 7059, "week_of_year": 49, "day_of_week": 2,
          "hour_of_day": 0, "hour_of_day_decimal": 0.9997222222222222,
          "time_zone_hour": 1, "time_zone_minute": 0}}]


def install(ctx, repo, probes):
    TP = repo.TimePoint
    D = repo.data

    def pre(args, kwargs):
        a, b = args[0], args[1]
        if not isinstance(b, TP) or a._truncated or b._truncated:
            return None
        mode = R.canon(repo.CALENDAR.mode)
        if not (R.tp_valid(mode, a) and R.tp_valid(mode, b)):
            return None
        exact = pair_exact_pts(a, b) or (
            # quarter units in any precision form, one offset: every float
            # operation on them is exact as well
            R.tp_is_dyadic(a, 4) and R.tp_is_dyadic(b, 4) and
            R.tp_offset_minutes(a) == R.tp_offset_minutes(b))
        return (mode, R.tp_instant(mode, a), R.tp_instant(mode, b),
                R.tp_key(a), R.tp_key(b), exact)

    def post(snap, args, kwargs, d, exc):
        if snap is None:
            return
        mode, ia, ib, ka, kb, exact = snap
        ctx.ev("sub.post")
        ctx.cls("regime/" + ("exact" if exact else "tolerance"))
        if exc is not None:
            if getattr(exc, "_rtv_seen", False):
                return
            try:
                exc._rtv_seen = True
            except Exception:
                pass
            ctx.violation(
                "sub.raised", "%r - %r raised %s (mode %s)" % (
                    ka, kb, type(exc).__name__, mode), a=ka, b=kb,
                exc=type(exc).__name__,
                float_equal=(not exact and abs(ia - ib) <= TOL))
            return
        want = ia - ib
        prob = None
        if not isinstance(d, repo.Duration) or isinstance(d, repo.TimeZone):
            prob = "result is %s, not a Duration" % type(d).__name__
        elif d._years or d._months or d._weeks is not None:
            prob = "result has nominal or week components"
        else:
            got = R.dur_len(d)
            if exact:
                if got != want:
                    prob = "length off by %s s" % (got - want)
                elif want != 0 and not shape_ok(d):
                    prob = "components out of range or of mixed sign"
                elif want == 0 and any((d._days, d._hours, d._minutes,
                                        d._seconds)):
                    prob = "non-empty duration for equal instants"
            elif abs(got - want) > TOL:
                prob = "length off by %s s" % float(got - want)
            else:
                # fractional operands: float noise can only flip a borrow
                # when the difference is within noise of a whole second;
                # otherwise one sign and the ranges are demanded as well
                frac = want % 1
                if min(frac, 1 - frac) > TOL and not shape_ok(d):
                    prob = "components out of range or of mixed sign"

        if prob:
            ctx.violation("sub.wrong", "%r - %r = %r: %s (reference %s s, "
                          "mode %s)" % (ka, kb, R.dur_key(d) if hasattr(
                              d, "_days") else d, prob, want, mode),
                          a=ka, b=kb)
            return
        if ka != kb:
            lo_a = ia + ka[5] * 3600 + ka[6] * 60
            lo_b = ib + ka[5] * 3600 + ka[6] * 60   # b in a's zone
            borrow = (lo_a % 86400) < (lo_b % 86400) if want > 0 else \
                (lo_b % 86400) < (lo_a % 86400)
            if borrow or lo_a // 86400 != lo_b // 86400:
                ctx.nontrivial((mode, ka, kb))
            if borrow:
                ctx.cls("borrow")
            if abs(want) > 400 * 366 * 86400:
                ctx.cls("far")
            if (ia < 0) != (ib < 0):
                ctx.cls("across-year-1")
            if ka[0] != kb[0]:
                ctx.cls("mixed-representation")
            if ka[5:7] != kb[5:7]:
                ctx.cls("mixed-offset")
            if ka[2] == 24 or kb[2] == 24:
                ctx.cls("24:00-operand")
    probes.wrap(TP, "__sub__", post, pre)
    ctx.budget = core.Budget(repo.path)
    ctx.target("pair/moved-by-truncated-year")
    ctx.target("borrow", "far", "across-year-1", "mixed-representation",
               "mixed-offset", "24:00-operand", "regime/exact",
               "addsub/zone-typed-duration",
               "regime/tolerance")

    def post_range(snap, args, kwargs, res, exc):
        if kwargs or len(args) != 2:
            return
        mode = R.canon(repo.CALENDAR.mode)
        ctx.ev("range.post")
        want = R.days_in_year_range(mode, args[0], args[1])
        if exc is not None or res != want:
            ctx.violation("range.wrong", "get_days_in_year_range%r = %r, "
                          "reference %r (mode %s)" % (
                              tuple(args), res, want, mode))
    probes.wrap(D, "get_days_in_year_range", post_range)


def _same(ctx, repo, mode, x, y, exact):
    """x and y denote the same instant (and compare equal in the exact
    regime)"""
    ix, iy = R.tp_instant(mode, x), R.tp_instant(mode, y)
    if exact:
        return ix == iy and (x == y) is True
    return abs(ix - iy) <= TOL


def run_case(ctx, repo, case):
    mode = case["mode"]
    repo.set_mode(mode, case)
    try:
        if case["op"] == "pair":
            a, b = repo.tp(case["a"]), repo.tp(case["b"])
            via = case.get("via_truncated")
            if via:
                # a is first used (compared, subtracted, looked at), then
                # moved to another year by adding a truncated point that
                # names a year of the decade / century, and turned back into
                # its representation: a value like any other
                rep0 = R.tp_key(a)[0]
                try:
                    a - b
                    a < b
                    a.day_of_year
                    t = repo.TimePoint(truncated=True,
                                       truncated_property=via[0], year=via[1])
                    moved, _ = ctx.budget.run(400000, lambda: t + a)
                    a = {"cal": moved.to_calendar_date,
                         "ord": moved.to_ordinal_date,
                         "week": moved.to_week_date}[rep0]()
                    b = repo.tp(case["a"])      # the point it came from
                except (core.BudgetExceeded, ValueError):
                    return
                ctx.cls("pair/moved-by-truncated-year")
            exact = pair_exact_pts(a, b)
            try:
                d1 = a - b
                d2 = b - a
            except (RecursionError, ValueError, ArithmeticError):
                return            # reported by the monitor
            ctx.ev("identity.neg")
            neg = d2 * -1
            if exact:
                ok = (d1 == neg) is True and R.dur_len(d1) == -R.dur_len(d2)
            else:
                ok = abs(R.dur_len(d1) + R.dur_len(d2)) <= TOL
            if not ok:
                ctx.violation("identity.neg", "(a-b) != -(b-a): %r vs %r for "
                              "a=%r b=%r" % (R.dur_key(d1), R.dur_key(d2),
                                             R.tp_key(a), R.tp_key(b)))
            if case.get("addback", True):
                ctx.ev("identity.addback")
                # adding stays exact only if b can absorb d1's units
                ex2 = exact and add_stays_integral(b, d1)
                r = b + d1
                if not _same(ctx, repo, mode, r, a, ex2):
                    ctx.violation("identity.addback", "b + (a-b) != a: b=%r "
                                  "a=%r a-b=%r gives %r (mode %s)" % (
                                      R.tp_key(b), R.tp_key(a),
                                      R.dur_key(d1), R.tp_key(r), mode))
        else:
            p, d = repo.tp(case["p"]), repo.dur(case["d"])
            if case.get("as_zone"):
                # the same exact duration as a TimeZone object (a Duration
                # subclass), possibly carrying days from arithmetic
                h, m = case["as_zone"]
                d = repo.TimeZone(hours=h, minutes=m)
                if case["d"].get("days"):
                    d = d + repo.Duration(days=case["d"]["days"])
                ctx.cls("addsub/zone-typed-duration")
            q = p + d
            diff = q - p
            ctx.ev("identity.addsub")
            exact = add_stays_integral(p, d)
            if exact:
                ok = (diff == d) is True and R.dur_len(diff) == R.dur_len(d)
            else:
                ok = abs(R.dur_len(diff) - R.dur_len(d)) <= 2 * TOL
            if not ok:
                ctx.violation("identity.addsub", "(p+d)-p != d: p=%r d=%r "
                              "gives %r (mode %s)" % (
                                  R.tp_key(p), R.dur_key(d),
                                  R.dur_key(diff), mode))
    finally:
        repo.set_mode("gregorian")


def moved_cases():
    for rep in gen.REPS:
        for y in (2015, 2019, 2020):
            for prop, k in (("year_of_decade", 9), ("year_of_century", 23),
                            ("year_of_decade", 0), ("year_of_century", 99)):
                rd = R.days_before_year("gregorian", y) + 62
                a = gen.date_kwargs("gregorian", rep, rd)
                a.update({"hour_of_day": 6, "minute_of_hour": 30,
                          "second_of_minute": 0})
                a.update(gen.zone_kwargs((0, 0)))
                b = dict(a, hour_of_day=1)
                yield {"op": "pair", "mode": "gregorian", "a": a, "b": b,
                       "via_truncated": [prop, k]}


DELTAS = (0, 1, -1, 59, 60, -61, 3599, 3600, -3601, 86399, 86400, -86401,
          43200, -7200)


def workload(ctx, repo):
    rng = ctx.rng
    if ctx.worker == 0:
        for case in moved_cases():
            ctx.case = case
            ctx.ev("cases.moved-by-truncated-year")
            run_case(ctx, repo, case)
    for case in REGRESSION_CASES:
        ctx.case = case
        run_case(ctx, repo, case)
    # every ordered pair of offsets from a grid (whole hours -4..+4, the
    # sub-hour ones of either sign, some larger ones): the same instant and
    # an hour apart
    i = 0
    base = R.days_before_year("gregorian", 2001) * 86400 + 59 * 86400 + 1800
    for oa in gen.OFFSET_GRID:
        for ob in gen.OFFSET_GRID:
            i += 1
            if not ctx.mine(i):
                continue
            mode = R.MODES[i % 4] if i % 3 == 0 else "gregorian"
            for delta in (0, 3600):
                a = gen.tp_from_instant(rng, mode, base + delta, offset=oa,
                                        allow_2400=False)
                b = gen.tp_from_instant(rng, mode, base, offset=ob,
                                        allow_2400=False)
                case = {"op": "pair", "mode": mode, "a": a, "b": b}
                ctx.case = case
                ctx.ev("cases.offset-grid")
                run_case(ctx, repo, case)
    for k in range(60):
        if not ctx.mine(k):
            continue
        mode = R.MODES[k % 4]
        h, m = gen.OFFSET_GRID[k % len(gen.OFFSET_GRID)]
        if abs(h) > 50:
            h, m = 5, 30
        days = (0, 2, -3)[k % 3]
        case = {"op": "addsub", "mode": mode,
                "p": gen.rand_tp(rng, mode, form="hms", integral=True),
                "d": {"days": days, "hours": h, "minutes": m},
                "as_zone": [h, m]}
        if case["p"].get("hour_of_day") == 24:
            continue
        ctx.case = case
        run_case(ctx, repo, case)
    # the same local day and hour in two precision forms (hh:mm:ss against
    # decimal hours / decimal minutes in quarter units), minutes apart
    for k in range(400 if ctx.tier == "quick" else 1600):
        if not ctx.mine(k):
            continue
        mode = R.MODES[k % 4] if k % 3 == 0 else "gregorian"
        y = gen.rand_year(rng, -500, 9000)
        rd = gen.rand_rd(rng, mode, y, bias=0.5)
        rep = rng.choice(gen.REPS)
        off = rng.choice(((0, 0), (0, 0), (5, 0), (-3, 0)))
        h = rng.randrange(24)
        q = rng.choice((0.25, 0.5, 0.75, 0.0))
        a = gen.date_kwargs(mode, rep, rd)
        a.update(gen.zone_kwargs(off))
        b = gen.date_kwargs(mode, rng.choice(gen.REPS), rd)
        b.update(gen.zone_kwargs(off))
        if k % 2:
            a.update(hour_of_day=h, hour_of_day_decimal=q)
        else:
            a.update(hour_of_day=h, minute_of_hour=int(q * 60),
                     minute_of_hour_decimal=rng.choice((0.5, 0.25, 0.0)))
        b.update(hour_of_day=h,
                 minute_of_hour=min(59, max(0, int(q * 60) + rng.choice(
                     (-1, 0, 1, 2, -14, 16)))),
                 second_of_minute=rng.choice((0, 0, 30, 59)))
        if k % 4 < 2:
            a, b = b, a
        case = {"op": "pair", "mode": mode, "a": a, "b": b}
        ctx.case = case
        ctx.ev("cases.mixed-precision-pair")
        run_case(ctx, repo, case)
    # pairs less than a second apart (binary fractions of a second: exact)
    for k in range(600 if ctx.tier == "quick" else 2400):
        if not ctx.mine(k):
            continue
        mode = R.MODES[k % 4] if k % 3 == 0 else "gregorian"
        y = gen.rand_year(rng, -500, 9000)
        inst = gen.rand_rd(rng, mode, y, bias=0.5) * 86400 + rng.choice(
            (0, 59, 3599, 86399, rng.randrange(86400)))
        a = gen.tp_from_instant(rng, mode, inst, allow_2400=False)
        b = gen.tp_from_instant(rng, mode, inst + rng.choice((0, 0, 1, -1)),
                                allow_2400=False)
        fa, fb = rng.sample((0.0, 0.25, 0.5, 0.75, 0.125, 0.875), 2)
        a["second_of_minute_decimal"] = fa
        b["second_of_minute_decimal"] = fb
        case = {"op": "pair", "mode": mode, "a": a, "b": b}
        ctx.case = case
        ctx.ev("cases.sub-second-pair")
        run_case(ctx, repo, case)
    n = 24000 if ctx.tier == "quick" else 60000
    for k in range(n):
        mode = rng.choice(R.MODES) if k % 2 else "gregorian"
        exactk = k % 4 != 0
        v = k % 10
        if v < 6:     # near pair
            y = gen.rand_year(rng, -3000, 11000)
            if k % 50 == 3:
                y = gen.huge_year(rng)
            base = gen.rand_rd(rng, mode, y, bias=0.7) * 86400 + \
                rng.choice((0, 0, 86399, 1, rng.randrange(86400)))
            a = gen.tp_from_instant(rng, mode, base)
            b = gen.tp_from_instant(rng, mode, base + rng.choice(DELTAS))
            if not exactk:
                b = gen.rand_tp(rng, mode, year=y, integral=False)
            case = {"op": "pair", "mode": mode, "a": a, "b": b}
        elif v < 8:   # far pair
            ya = rng.choice((-5000, -400, -1, 0, 1, 1600, 2000, 9999,
                             rng.randint(-6000, 6000)))
            yb = rng.choice((-4000, 0, 1, 2000, 2400,
                             rng.randint(-6000, 6000)))
            a = gen.rand_tp(rng, mode, year=ya, integral=exactk)
            b = gen.rand_tp(rng, mode, year=yb, integral=exactk)
            far_days = abs(R.days_before_year(mode, ya) -
                           R.days_before_year(mode, yb))
            addback = far_days < 40000 or ("month_of_year" not in b and
                                           k % 5 == 0)
            case = {"op": "pair", "mode": mode, "a": a, "b": b,
                    "addback": addback}
        else:
            case = {"op": "addsub", "mode": mode,
                    "p": gen.rand_tp(rng, mode, integral=exactk),
                    "d": gen.rand_exact_dur(rng, integral=exactk)}
        ctx.case = case
        if k % 331 == 0:
            ctx.sample(case)
        run_case(ctx, repo, case)
        if k % 5 == 0 and case["op"] == "pair":
            tw = gen.twin_of(rng, mode, case["a"])
            if tw is not None:
                case = dict(case, a=tw)
                ctx.case = case
                ctx.ev("cases.twin")
                run_case(ctx, repo, case)
