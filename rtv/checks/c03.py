"""C03 - calendar, ordinal and ISO-week dates are faithful views of one day.

Monitors: reference-model postconditions on the six module-level conversion
functions, the length queries, the week-year start helpers, iter_months_days
and TimePoint.to_*_date; they see every call, including the internal ones
made by other operations of the workload."""
import copy

from .. import gen
from .. import refmodel as R

RULE = ("cases = (mode spelling, day); every day of the enumerated years is "
        "converted in all six directions by direct calls to the module-level "
        "functions, plus TimePoint.to_*_date / get_*_date / derived "
        "properties on a sample and get_days_in_year_range over year pairs; "
        "every (canonical mode, day) is non-trivial (a different view of the "
        "day is requested) and counted once")
RUN_REPO_SUITE = True   # thorough tier: repo tests under these monitors
DECIDING = ["conv.post", "length.post", "range.post", "to_date.post"]
MIN_EVALS = {"conv.post": 50000, "length.post": 2000, "range.post": 500,
             "to_date.post": 1000}
EXHAUSTIVE = {
    "thorough": "every day of Gregorian years 2000-2399 (one full 400-year "
                "cycle, 146097 days) x 6 conversion directions; every day of "
                "8 consecutive years (a full weekday cycle) for each of the "
                "6 fixed-length mode spellings",
}
CONV = {
    "get_calendar_date_from_ordinal_date": ("ord", "cal"),
    "get_calendar_date_from_week_date": ("week", "cal"),
    "get_ordinal_date_from_calendar_date": ("cal", "ord"),
    "get_ordinal_date_from_week_date": ("week", "ord"),
    "get_week_date_from_calendar_date": ("cal", "week"),
    "get_week_date_from_ordinal_date": ("ord", "week"),
}
SPELLS = ("gregorian", "360day", "360_day", "365day", "365_day", "366day",
          "366_day")


def _ints(xs):
    return all(isinstance(x, int) and not isinstance(x, bool) for x in xs)


def install(ctx, repo, probes):
    D = repo.data

    def mode_now():
        return R.canon(repo.CALENDAR.mode)

    def make_conv(name, src, dst):
        def post(snap, args, kwargs, res, exc):
            if kwargs or not _ints(args):
                return
            mode = mode_now()
            if not R.valid_date(mode, src, tuple(args)):
                return
            ctx.ev("conv.post")
            ctx.cls("%s/%s->%s" % (repo.CALENDAR.mode, src, dst))
            want = R.rd_to_date(mode, dst, R.date_to_rd(mode, src,
                                                        tuple(args)))
            if exc is not None:
                ctx.violation("conv.raised", "%s%r raised %r in mode %s "
                              "(valid date; expected %r)" % (
                                  name, tuple(args), exc, mode, want),
                              fn=name, args=list(args))
            elif tuple(res) != want or not _ints(res):
                ctx.violation("conv.wrong", "%s%r = %r, reference %r (mode "
                              "%s)" % (name, tuple(args), res, want, mode),
                              fn=name, args=list(args))
        return post

    for name, (src, dst) in CONV.items():
        probes.wrap(D, name, make_conv(name, src, dst))
        for sp in SPELLS:
            ctx.target("%s/%s->%s" % (sp, src, dst))
    ctx.target("points/float-day-field")

    def length(name, ref):
        def post(snap, args, kwargs, res, exc):
            if kwargs:
                return
            mode = mode_now()
            try:
                want = ref(mode, *args)
            except Exception:
                return
            if want is None:
                return
            ctx.ev("length.post")
            if exc is not None or res != want:
                ctx.violation("length.%s" % name, "%s%r = %r (exc %r), "
                              "reference %r (mode %s)" % (
                                  name, tuple(args), res, exc, want, mode),
                              fn=name, args=list(args))
        probes.wrap(D, name, post)

    def ref_leap(mode, y):
        if mode != "gregorian" or not _ints((y,)):
            return None      # only the Gregorian rule is a calendar fact
        return R.greg_leap(y)

    def ref_diy(mode, y):
        return R.year_len(mode, y) if _ints((y,)) else None

    def ref_dim(mode, m, y="leap"):
        if not _ints((m,)) or not 1 <= m <= 12:
            return None
        if y == "leap":
            return {"gregorian": R.M366, "360day": R.M360, "365day": R.M365,
                    "366day": R.M366}[mode][m - 1]
        if y is None:
            return {"gregorian": R.M365, "360day": R.M360, "365day": R.M365,
                    "366day": R.M366}[mode][m - 1]
        if not _ints((y,)):
            return None
        return R.month_len(mode, y, m)

    def ref_wiy(mode, y):
        return R.weeks_in_year(mode, y) if _ints((y,)) else None

    def ref_cws(mode, y):
        return R.rd_to_ymd(mode, R.week_start(mode, y)) if _ints((y,)) \
            else None

    def ref_ows(mode, y):
        return R.rd_to_ord(mode, R.week_start(mode, y)) if _ints((y,)) \
            else None

    length("get_is_leap_year", ref_leap)
    length("get_days_in_year", ref_diy)
    length("get_days_in_month", ref_dim)
    length("get_weeks_in_year", ref_wiy)
    length("get_calendar_date_week_date_start", ref_cws)
    length("get_ordinal_date_week_date_start", ref_ows)

    def post_range(snap, args, kwargs, res, exc):
        if kwargs or len(args) != 2 or not _ints(args):
            return
        mode = mode_now()
        ctx.ev("range.post")
        want = R.days_in_year_range(mode, args[0], args[1])
        if exc is not None or res != want:
            ctx.violation("range.wrong", "get_days_in_year_range%r = %r (exc "
                          "%r), reference %r (mode %s)" % (
                              tuple(args), res, exc, want, mode),
                          args=list(args))
    probes.wrap(D, "get_days_in_year_range", post_range)

    def post_iter(snap, args, kwargs, res, exc):
        a = list(args) + [None] * (4 - len(args))
        y = a[0]
        mo = kwargs.get("month_of_year", a[1])
        dd = kwargs.get("day_of_month", a[2])
        rev = kwargs.get("in_reverse", a[3] or False)
        if not _ints((y,)):
            return
        mode = mode_now()
        if mo is not None and not (1 <= mo <= 12):
            return
        ctx.ev("iter.post")
        lens = R.month_lengths(mode, y)
        full = [(m + 1, d) for m in range(12) for d in range(1, lens[m] + 1)]
        if not rev:
            if mo is None:
                want = full
            else:
                start = (mo, dd if dd is not None else 1)
                want = [x for x in full if x >= start]
        else:
            if mo is None:
                want = full[::-1]
            else:
                end = (mo, dd if dd is not None else lens[mo - 1])
                want = [x for x in full if x <= end][::-1]
        if exc is not None or list(res) != want:
            ctx.violation("iter.wrong", "iter_months_days(%r,%r,%r,%r) "
                          "differs from the reference (mode %s): got %r.. "
                          "want %r.." % (y, mo, dd, rev, mode,
                                         list(res or [])[:3], want[:3]),
                          args=[y, mo, dd, rev])
    probes.wrap(D, "iter_months_days", post_iter)

    TP = repo.TimePoint

    def make_to(dst):
        def pre(args, kwargs):
            p = args[0]
            mode = mode_now()
            if p._truncated or not R.tp_valid(mode, p):
                return None
            return (mode, R.tp_rd(mode, p), R.tp_key(p))

        def post(snap, args, kwargs, q, exc):
            if snap is None:
                return
            mode, rd, key = snap
            ctx.ev("to_date.post")
            if exc is not None:
                ctx.violation("to_date.raised", "to_%s raised %r on %r" % (
                    dst, exc, key), p=key)
                return
            want = R.rd_to_date(mode, dst, rd)
            rep, date = R.tp_date(q)
            kq = R.tp_key(q)
            if (rep != dst or date != want or kq[2:] != key[2:] or
                    not R.tp_valid(mode, q)):
                ctx.violation("to_date.wrong", "to_%s of %r gave %r, "
                              "reference date %r (mode %s)" % (
                                  dst, key, kq, want, mode), p=key)
        return pre, post

    for dst, meth in (("cal", "to_calendar_date"), ("ord", "to_ordinal_date"),
                      ("week", "to_week_date")):
        pre, post = make_to(dst)
        probes.wrap(TP, meth, post, pre)


def _sweep_years(ctx, spell):
    mode = R.canon(spell)
    if mode == "gregorian":
        if ctx.tier == "thorough":
            ys = list(range(2000, 2400))
            extra = list(range(-401, 402, 7)) + list(range(1582, 1601)) + \
                list(range(9990, 10011)) + [-99999, 99999, -9999, 12345]
        else:
            off = ctx.seed % 370
            ys = list(range(2000 + off, 2000 + off + 28))
            extra = [1900, 2000, 2100, 2400, 0, -1, -4, -100, -400, 1, 9999,
                     10000, 99999, -99999, 2015, 2020]
        # century years whatever weekday they start on, and years beyond the
        # integers a float holds exactly
        extra += [1700, 1800, 2200, 2300, 2500, 2600, 3000][
            ctx.seed % 3::3] + [10 ** 16 + 4 + ctx.seed % 7, 2 ** 53 + 3,
                                -10 ** 17 - 1]
        return ys, extra
    base = 1996 + (ctx.seed % 5)
    ys = list(range(base, base + 8))
    extra = [0, -1, -7, 1, 9999, 10000, -400, 10 ** 16 + 3 + ctx.seed % 7]
    if ctx.tier == "thorough":
        extra += list(range(-10, 11)) + [99999, -99999]
    return ys, extra


def run_case(ctx, repo, case):
    D = repo.data
    spell = case["mode"]
    mode = R.canon(spell)
    repo.CALENDAR.set_mode(spell)
    if case.get("scratch_first"):
        # the first thing this process does (nothing memoised yet): a copy
        # of the active calendar is switched to another mode
        copy.copy(repo.CALENDAR).set_mode(case["scratch_first"])
        ctx.ev("cases.scratch-copy-first")
    repo.scratch_for(case)
    try:
        if case["op"] == "year":
            y = case["year"]
            y0 = R.days_before_year(mode, y)
            for k in range(R.year_len(mode, y)):
                rd = y0 + k
                ymd = R.rd_to_ymd(mode, rd)
                od = (y, k + 1)
                wd = R.rd_to_week(mode, rd)
                D.get_ordinal_date_from_calendar_date(*ymd)
                D.get_week_date_from_calendar_date(*ymd)
                D.get_calendar_date_from_ordinal_date(*od)
                D.get_week_date_from_ordinal_date(*od)
                D.get_calendar_date_from_week_date(*wd)
                D.get_ordinal_date_from_week_date(*wd)
                ctx.nontrivial((mode, rd))
            D.get_is_leap_year(y)
            D.get_days_in_year(y)
            D.get_weeks_in_year(y)
            D.get_calendar_date_week_date_start(y)
            D.get_ordinal_date_week_date_start(y)
            for m in range(1, 13):
                D.get_days_in_month(m, y)
                D.get_days_in_month(m)
                D.get_days_in_month(m, None)
            D.iter_months_days(y)
            D.iter_months_days(y, in_reverse=True)
            D.iter_months_days(y, 2, 27)
            D.iter_months_days(y, month_of_year=3, day_of_month=1,
                               in_reverse=True)
            D.iter_months_days(y, 12)
            ctx.extra["days_enumerated/%s" % spell] = ctx.extra.get(
                "days_enumerated/%s" % spell, 0) + R.year_len(mode, y)
        elif case["op"] == "range":
            for a, b in case["pairs"]:
                D.get_days_in_year_range(a, b)
        elif case["op"] == "points":
            for n_pt, kw in enumerate(case["points"]):
                p = repo.tp(kw)
                if n_pt % 5 == 4 and p._hour_of_day != 24:
                    # the same day reached by arithmetic that leaves its day
                    # count as a whole float (2.0 days, 48.0 hours carried)
                    p = (p - repo.Duration(days=2)) + (
                        repo.Duration(days=2.0) if n_pt % 2 else
                        repo.Duration(hours=48.0, standardize=True))
                    ctx.cls("points/float-day-field")

                rd = R.tp_rd(mode, p)
                q1, q2, q3 = (p.to_calendar_date(), p.to_ordinal_date(),
                              p.to_week_date())
                for q, want_rep in ((q1, "cal"), (q2, "ord"), (q3, "week")):
                    # a converted copy is in the asked representation only
                    # (no field of another one left behind) ...
                    flags = (q.get_is_calendar_date(),
                             q.get_is_ordinal_date(), q.get_is_week_date())
                    if R.tp_rep(q) != want_rep or not R.tp_valid(mode, q) \
                            or flags != tuple(want_rep == r for r in (
                                "cal", "ord", "week")):
                        ctx.violation("to_date.mixed", "to_%s of %r carries "
                                      "fields of another representation: %r "
                                      "(flags %r)" % (
                                          want_rep, R.tp_key(p),
                                          {k: getattr(q, "_" + k) for k in (
                                              "month_of_year", "day_of_month",
                                              "day_of_year", "week_of_year",
                                              "day_of_week")}, flags))
                # ... and stays a faithful view after a day is added
                day = repo.Duration(days=1)
                movers = [] if p._hour_of_day == 24 else [
                    (q1 + day, 1), (q2 + day, 1), (q3 + day, 1)]
                for q, shift in [(p, 0), (q1, 0), (q2, 0), (q3, 0)] + movers:
                    rd = R.tp_rd(mode, p) + shift
                    ctx.ev("accessor.check")
                    got = (tuple(q.get_calendar_date()),
                           tuple(q.get_ordinal_date()),
                           tuple(q.get_week_date()),
                           (q.month_of_year, q.day_of_month),
                           q.day_of_year, (q.week_of_year, q.day_of_week))
                    ymd = R.rd_to_ymd(mode, rd)
                    od = R.rd_to_ord(mode, rd)
                    wd = R.rd_to_week(mode, rd)
                    want = (ymd, od, wd, ymd[1:], od[1], wd[1:])
                    if got != want:
                        ctx.violation("accessor.wrong", "accessors of %r "
                                      "give %r, reference %r (mode %s)" % (
                                          R.tp_key(q), got, want, mode),
                                      p=R.tp_key(q))
    finally:
        repo.CALENDAR.set_mode("gregorian")


def workload(ctx, repo):
    rng = ctx.rng
    # (every worker is a fresh process: its first case meets cold memo tables)
    case = {"op": "year", "mode": R.MODES[ctx.worker % 4],
            "year": (2004, 2003, 2000, 1900)[(ctx.worker // 4) % 4],
            "scratch_first": ("360day", "gregorian", "366day", "365day")[
                (ctx.worker + 1) % 4]}
    ctx.case = case
    run_case(ctx, repo, case)
    i = 0
    for spell in SPELLS:
        mode = R.canon(spell)
        ys, extra = _sweep_years(ctx, spell)
        for y in ys + extra:
            i += 1
            if not ctx.mine(i):
                continue
            case = {"op": "year", "mode": spell, "year": y}
            ctx.case = case
            if i % 41 == 0:
                ctx.sample(case)
            run_case(ctx, repo, case)
        # year ranges
        if ctx.mine(i):
            pairs = []
            span = list(range(-450, 451, 1 if ctx.tier == "thorough" else 23))
            for a in span[::7] + [1890, 1899, 1900, 1999, 2000, 2001, 2399,
                                  2400, 2410, 0, -1, 1, 4, 100, 400]:
                for b in (a - 1, a, a + 1, a + 3, a + 4, a + 99, a + 100,
                          a + 101, a + 399, a + 400, a + 401,
                          a + rng.randint(0, 900)):
                    pairs.append((a, b))
            case = {"op": "range", "mode": spell, "pairs": pairs}
            ctx.case = case
            run_case(ctx, repo, case)
        # TimePoint level
        n = 150 if ctx.tier == "quick" else 600
        pts = [gen.rand_tp(rng, mode) for _ in range(n)]
        # one instant on two or three different local days (offsets 26 h
        # apart; 24:00 against the next day's 00:00), converted one after
        # the other: each must show its own local day
        for _ in range(n // 3):
            y = gen.rand_year(rng, -500, 9000)
            inst = gen.rand_rd(rng, mode, y, bias=0.5) * 86400 + \
                rng.choice((0, 3600, 43200, 82800, rng.randrange(86400)))
            rep = rng.choice(gen.REPS)
            for off in ((14, 0), (-12, 0), (0, 0)):
                pts.append(gen.tp_from_instant(
                    rng, mode, inst, rep=rep if rng.random() < 0.7 else None,
                    offset=off))
        case = {"op": "points", "mode": spell, "points": pts}
        ctx.case = case
        run_case(ctx, repo, case)
        ctx.sample({"op": "points", "mode": spell, "points": pts[:2]})


def finish_merged(merged, tier):
    if tier == "thorough":
        got = merged["extra"].get("days_enumerated/gregorian", 0)
        if got < 146097:
            merged["inconclusive"].append(
                "the 400-year cycle was not fully enumerated (%d days)" % got)
