"""C06 - changing the UTC offset never changes the instant.

Monitors: postconditions on TimePoint.to_time_zone / to_utc /
to_local_time_zone (same reference instant, requested offset, same
representation, legal local fields) and on TimePointDumper.dump for formats
with a literal zone (the produced text is decoded by the reference decoder).
The workload then asks the real ==, hash and - about (p, re-zoned p)."""
from fractions import Fraction as F
from unittest import mock
import time as _time

from .. import gen
from .. import isotext
from .. import refmodel as R
from ..regime import TOL, SLACK, pair_exact_pts, is_hform

RULE = ("cases = (mode, TimePoint kwargs, destination offset) for "
        "to_time_zone/to_utc/to_local_time_zone and (mode, TimePoint kwargs, "
        "dump format with a literal zone); destinations sweep -99:59..+99:59 "
        "(all 11999 whole-minute offsets in the thorough tier) over "
        "boundary points (year/month/leap-day/week-year edges in 3 "
        "representations) plus seeded random sources; non-trivial = the "
        "reference says the local calendar day changes under the new "
        "offset, or the offset has non-zero minutes / zero hours with "
        "negative minutes / magnitude beyond a day; distinct by (mode, "
        "p-fields, destination)")
RUN_REPO_SUITE = True   # thorough tier: repo tests under these monitors
DECIDING = ["rezone.post", "dump.post", "eqhash.check"]
MIN_EVALS = {"rezone.post": 4000, "dump.post": 1000, "eqhash.check": 2000}
EXHAUSTIVE = {"thorough": "all 11999 destination offsets -99:59..+99:59 "
                          "(plus both signs of zero-hour offsets) x 9 "
                          "boundary source points"}
ASSUMPTIONS = [
    "== / hash / zero difference are demanded in the exact regime "
    "(integral time fields, decimal-hour forms only with whole-hour offset "
    "changes); otherwise the instant must agree within 1e-6 s",
]


def install(ctx, repo, probes):
    TP = repo.TimePoint

    def pre(args, kwargs):
        p = args[0]
        mode = R.canon(repo.CALENDAR.mode)
        if p._truncated or not R.tp_valid(mode, p):
            return None
        return (mode, R.tp_instant(mode, p), R.tp_key(p), R.tp_rd(mode, p),
                R.tp_is_integral(p), is_hform(p))

    def judge(tag, snap, dest, q, exc):
        mode, inst, key, rd, integral, hform = snap
        ctx.ev("rezone.post")
        if exc is not None:
            ctx.violation(tag + ".raised", "%s(%r) raised %r on %r" % (
                tag, dest, exc, key), p=key, dest=dest)
            return
        same_off = dest == (key[5], key[6])
        exact = integral and not (
            hform and ((dest[0] * 60 + dest[1]) - (key[5] * 60 + key[6])) % 60)
        prob = None
        if not isinstance(q, TP) or q._truncated:
            prob = "result is not a full TimePoint"
        elif (q._time_zone._hours, q._time_zone._minutes) != dest or \
                q._time_zone._unknown:
            prob = "carries offset %r" % ((q._time_zone._hours,
                                           q._time_zone._minutes),)
        elif R.tp_rep(q) != key[0]:
            prob = "representation changed"
        elif not R.tp_valid(mode, q, allow_24=same_off,
                            slack=F(0) if exact else SLACK):
            prob = "local fields out of range"
        else:
            got = R.tp_instant(mode, q)
            if (exact and got != inst) or abs(got - inst) > TOL:
                prob = "instant moved by %s s" % float(got - inst)
        if prob:
            ctx.violation(tag + ".wrong", "%s(%r) of %r: %s; got %r (mode "
                          "%s)" % (tag, dest, key, prob,
                                   R.tp_key(q) if hasattr(q, "_year") else q,
                                   mode), p=key, dest=dest)
            return
        delta = (dest[0] * 60 + dest[1]) - (key[5] * 60 + key[6])
        local_new = inst + (dest[0] * 60 + dest[1]) * 60
        rd_new = int(local_new // 86400)
        if rd_new != rd:
            ctx.cls("day-rollover/%s/%s" % (mode, key[0]))
            ya = R.rd_to_ord(mode, rd)[0]
            yb = R.rd_to_ord(mode, rd_new)[0]
            if ya != yb:
                ctx.cls("year-rollover/%s" % key[0])
            if R.rd_to_week(mode, rd)[0] != R.rd_to_week(mode, rd_new)[0]:
                ctx.cls("weekyear-rollover")
        if dest[1] != 0:
            ctx.cls("minutes-offset")
        if dest[0] == 0 and dest[1] < 0:
            ctx.cls("zero-hour-negative-minutes")
        if abs(dest[0]) >= 24:
            ctx.cls("beyond-a-day")
        if rd_new != rd or dest[1] != 0 or abs(dest[0]) >= 24:
            ctx.nontrivial((mode, key, dest))

    def post_tz(snap, args, kwargs, q, exc):
        if snap is None:
            return
        tz = args[1] if len(args) > 1 else kwargs.get("dest_time_zone")
        if tz is None or tz._unknown:
            if exc is None and q is not args[0] and \
                    R.tp_key(q) != snap[2]:
                ctx.violation("rezone.unknown", "to_time_zone(unknown) "
                              "changed the point")
            return
        judge("to_time_zone", snap, (tz._hours, tz._minutes), q, exc)
    probes.wrap(TP, "to_time_zone", post_tz, pre)

    def post_utc(snap, args, kwargs, q, exc):
        if snap is not None:
            judge("to_utc", snap, (0, 0), q, exc)
    probes.wrap(TP, "to_utc", post_utc, pre)

    def post_local(snap, args, kwargs, q, exc):
        if snap is None:
            return
        # the system offset in effect, read from what the library reads
        tm = repo.timezone.time
        off = -tm.timezone
        if tm.localtime().tm_isdst == 1 and tm.daylight:
            off = -tm.altzone
        if off % 60:
            return
        judge("to_local_time_zone", snap, R.split_offset_seconds(off), q, exc)
    ctx.local_offset = (0, 0)
    probes.wrap(TP, "to_local_time_zone", post_local, pre)

    def pre_dump(args, kwargs):
        spec = ctx.dump_spec
        if spec is None:
            return None
        return pre((args[1],), {})

    def post_dump(snap, args, kwargs, text, exc):
        spec = ctx.dump_spec
        if snap is None or spec is None:
            return
        mode, inst, key, rd, integral, hform = snap
        ctx.ev("dump.post")
        if exc is not None:
            # the dumper may refuse a year that does not fit the format - but
            # only when the year of the re-zoned local date really does not
            if isinstance(exc, repo.exceptions.TimePointDumperBoundsError):
                local = inst + spec["off_min"] * 60
                yr = R.rd_to_date(mode, spec["rep"], int(local // 86400))[0]
                fits = abs(yr) <= 10 ** (4 + spec["nexp"]) - 1 \
                    if spec["nexp"] else 0 <= yr <= 9999
                if not fits:
                    ctx.cls("dump/bounds-error-legit")
                    return
            ctx.violation("dump.raised", "dump(%r, %r) raised %r" % (
                key, args[2], exc), p=key, fmt=args[2])
            return
        dec = isotext.decode(text, spec["rep"], spec["ext"], spec["nexp"],
                             spec["units"])
        prob = None
        if dec is None:
            prob = "text does not have the layout of the format"
        elif spec["units"] < 2:
            # the format leaves out the minutes (or the whole time of day):
            # the date - and the hour - are those of the point read in the
            # format's zone
            date, sod, off = dec
            local = inst + spec["off_min"] * 60
            want = tuple(R.rd_to_date(mode, spec["rep"],
                                      int(local // 86400)))
            if off != spec["off_min"]:
                prob = "zone spelled %r, format says %r" % (off,
                                                            spec["off_min"])
            elif tuple(date) != want:
                prob = "date %r, in the format's zone it is %r" % (date,
                                                                  want)
            elif sod is not None and sod != int(local % 86400) // 3600 * 3600:
                prob = "hour %r, in the format's zone it is %r" % (
                    sod / 3600, int(local % 86400) // 3600)
        else:
            date, sod, off = dec
            if off != spec["off_min"]:
                prob = "zone spelled %r, format says %r" % (off,
                                                            spec["off_min"])
            elif not R.valid_date(mode, spec["rep"], date) or sod >= 86400:
                prob = "invalid local date/time in text"
            else:
                got = (R.date_to_rd(mode, spec["rep"], date) * 86400 + sod -
                       off * 60)
                if got != inst:
                    prob = "text denotes an instant %s s away" % float(
                        got - inst)
        if prob:
            ctx.violation("dump.wrong", "dump(%r, %r) = %r: %s (mode %s)" % (
                key, args[2], text, prob, mode), p=key, fmt=args[2])
        else:
            ctx.cls("dump/%s/%s/%s" % (spec["rep"],
                                       "ext" if spec["ext"] else "basic",
                                       spec["zform"]))
    ctx.dump_spec = None
    probes.wrap(repo.dumpers.TimePointDumper, "dump", post_dump, pre_dump)

    for mode in R.MODES:
        for rep in gen.REPS:
            ctx.target("day-rollover/%s/%s" % (mode, rep))
    for rep in gen.REPS:
        ctx.target("year-rollover/%s" % rep)
        for e in ("ext", "basic"):
            for z in ("Z", "hh", "hhmm"):
                ctx.target("dump/%s/%s/%s" % (rep, e, z))
    ctx.target("dump/bounds-error-legit", "local/dst-rule-in-effect",
               "local/dst-rule-not-in-effect")
    ctx.target("weekyear-rollover", "minutes-offset",
               "zero-hour-negative-minutes", "beyond-a-day")


def _eq_hash_zero(ctx, repo, mode, p, q):
    ctx.ev("eqhash.check")
    if pair_exact_pts(p, q) and not (
            (is_hform(p)) and R.tp_offset_minutes(p) % 60) and not (
            is_hform(q) and R.tp_offset_minutes(q) % 60):
        bad = []
        if (q == p) is not True or (p == q) is not True:
            bad.append("compares unequal")
        if (q != p) is not False:
            bad.append("!= is true")
        if hash(q) != hash(p):
            bad.append("hashes differ")
        d = q - p
        if d or R.dur_len(d) != 0:
            bad.append("difference %r" % (R.dur_key(d),))
        if bad:
            ctx.violation("rezone.identity", "re-zoned %r vs original %r: %s "
                          "(mode %s)" % (R.tp_key(q), R.tp_key(p),
                                         ", ".join(bad), mode))


def run_case(ctx, repo, case):
    mode = case["mode"]
    repo.set_mode(mode, case)
    try:
        op = case["op"]
        p = repo.tp(case["p"]) if "p" in case else None
        if op == "tz":
            h, m = case["dest"]
            q = p.to_time_zone(repo.TimeZone(hours=h, minutes=m))
            _eq_hash_zero(ctx, repo, mode, p, q)
        elif op == "utc":
            q = p.to_utc()
            _eq_hash_zero(ctx, repo, mode, p, q)
        elif op == "local":
            off = case["local_seconds"]
            m = mock.Mock(spec=_time)
            m.timezone = -off
            m.altzone = -off
            m.daylight = 0
            m.localtime.return_value = mock.Mock(tm_isdst=0)
            dst = case.get("dst")
            if dst:
                # a zone with a daylight rule: the alternative offset
                # counts only while the platform says it is in effect
                m.altzone = -dst["alt_seconds"]
                m.daylight = 1
                m.localtime.return_value = mock.Mock(tm_isdst=dst["isdst"])
                ctx.cls("local/dst-rule-%s" % (
                    "in-effect" if dst["isdst"] == 1 else "not-in-effect"))
                if dst["isdst"] == 1:
                    off = dst["alt_seconds"]
            ctx.local_offset = R.split_offset_seconds(off)
            with mock.patch.object(repo.timezone, "time", m):
                q = p.to_local_time_zone()
            _eq_hash_zero(ctx, repo, mode, p, q)
        elif op == "dump":
            spec = case["spec"]
            ctx.dump_spec = spec
            try:
                dumper = repo.dumpers.TimePointDumper(
                    num_expanded_year_digits=spec["nexp"])
                try:
                    dumper.dump(p, case["fmt"])
                except ValueError:
                    pass        # judged by the monitor on dump
            finally:
                ctx.dump_spec = None
        elif op == "tzstr":
            for (h, m) in case["zones"]:
                ctx.ev("tzstr.check")
                got = str(repo.TimeZone(hours=h, minutes=m))
                want = isotext.enc_zone((h, m), "hhmm", True) \
                    if (h, m) != (0, 0) else "Z"
                if got != want:
                    ctx.violation("tzstr.wrong", "str(TimeZone(%d,%d)) = %r, "
                                  "expected %r" % (h, m, got, want))
    finally:
        repo.set_mode("gregorian")


def all_offsets():
    out = []
    for total in range(-(99 * 60 + 59), 99 * 60 + 60):
        h, m = divmod(abs(total), 60)
        if total < 0:
            out.append((-h, -m))
        else:
            out.append((h, m))
    return out


def boundary_points(mode, rng):
    pts = []
    for y, rep in ((2000, "cal"), (1999, "ord"), (2015, "week"),
                   (2004, "cal"), (0, "ord"), (2020, "week"),
                   (2100, "cal"), (-1, "week"), (9999, "ord")):
        rds = gen.boundary_rds(mode, y)
        rd = rds[len(pts) % len(rds)]
        kw = gen.date_kwargs(mode, rep, rd)
        kw.update({"hour_of_day": (0, 23, 12)[len(pts) % 3],
                   "minute_of_hour": (0, 59, 30)[len(pts) % 3],
                   "second_of_minute": (0, 59, 1)[len(pts) % 3]})
        kw.update(gen.zone_kwargs(gen.OFFSET_POOL[len(pts)]))
        pts.append(kw)
    return pts


DATE_FMT = {("cal", True): "CCYY-MM-DD", ("cal", False): "CCYYMMDD",
            ("ord", True): "CCYY-DDD", ("ord", False): "CCYYDDD",
            ("week", True): "CCYY-Www-D", ("week", False): "CCYYWwwD"}


def make_dump_case(rng, mode):
    rep = rng.choice(gen.REPS)
    ext = rng.random() < 0.5
    zform = rng.choice(("Z", "hh", "hhmm"))
    off = gen.rand_offset(rng)
    if zform == "Z":
        off = (0, 0)
    elif zform == "hh":
        off = (off[0], 0)
    units = rng.choice((3, 3, 2))
    src_rep = rng.choice(gen.REPS)
    p = gen.rand_tp(rng, mode, rep=src_rep, form="hms", bias=0.8,
                    year=gen.rand_year(rng, 1, 9998))
    if units == 2:
        p["second_of_minute"] = 0
    nexp = 0
    date_fmt = DATE_FMT[(rep, ext)]
    if rng.random() < 0.25:
        nexp = 2
        date_fmt = "+X" + date_fmt
    tsep = ":" if ext else ""
    time_fmt = "hh" + tsep + "mm" + (tsep + "ss" if units == 3 else "")
    fmt = date_fmt + "T" + time_fmt + isotext.enc_zone(off, zform, ext)
    return {"op": "dump", "mode": mode, "p": p, "fmt": fmt,
            "spec": {"rep": rep, "ext": ext, "nexp": nexp, "units": units,
                     "zform": zform, "off_min": off[0] * 60 + off[1]}}


def edge_year_dumps(rng):
    """dumps whose literal zone moves the date across the first / last year
    the format can hold"""
    out = []
    for (y, m, d, h, mi, nexp) in ((9999, 12, 31, 23, 30, 0),
                                   (0, 1, 1, 0, 30, 0),
                                   (999999, 12, 31, 23, 30, 2),
                                   (-999999, 1, 1, 0, 30, 2),
                                   (9999, 12, 31, 0, 30, 0),
                                   (0, 1, 1, 23, 30, 0)):
        for off in ((1, 0), (-1, 0), (0, 45), (0, -45), (14, 0), (-12, 0)):
            for rep, ext in (("cal", True), ("ord", False), ("week", True)):
                p = {"year": y, "month_of_year": m, "day_of_month": d,
                     "hour_of_day": h, "minute_of_hour": mi,
                     "second_of_minute": 0}
                if nexp:
                    p["num_expanded_year_digits"] = nexp
                dfmt = DATE_FMT[(rep, ext)]
                if nexp:
                    dfmt = "+X" + dfmt
                tsep = ":" if ext else ""
                fmt = dfmt + "T" + "hh" + tsep + "mm" + tsep + "ss" + \
                    isotext.enc_zone(off, "hhmm", ext)
                out.append({"op": "dump", "mode": "gregorian", "p": p,
                            "fmt": fmt,
                            "spec": {"rep": rep, "ext": ext, "nexp": nexp,
                                     "units": 3, "zform": "hhmm",
                                     "off_min": off[0] * 60 + off[1]}})
    return out


def workload(ctx, repo):
    rng = ctx.rng
    if ctx.worker == 0:
        for case in edge_year_dumps(rng):
            ctx.case = case
            run_case(ctx, repo, case)
    # every pair of small offsets (hours and minutes -3..3, minutes with the
    # hour's sign): the point's own offset against the format's literal zone
    # / the requested zone, neighbours one hour or one minute apart included
    small = [(h, m) for h in range(-3, 4) for m in range(-3, 4)
             if not (h > 0 and m < 0) and not (h < 0 and m > 0)]
    jj = 0
    for src in small:
        for dst in small:
            jj += 1
            if not ctx.mine(jj):
                continue
            kw = {"year": 2021, "month_of_year": (3, 1, 12)[jj % 3],
                  "day_of_month": (1, 1, 31)[jj % 3],
                  "hour_of_day": (0, 1, 23)[jj % 3],
                  "minute_of_hour": (1, 30, 58)[(jj // 3) % 3],
                  "second_of_minute": 7}
            kw.update(gen.zone_kwargs(src))
            rep, ext = (("cal", True), ("ord", False), ("week", True))[jj % 3]
            zform = "hh" if dst[1] == 0 and jj % 2 else "hhmm"
            tsep = ":" if ext else ""
            fmt = DATE_FMT[(rep, ext)] + "T" + "hh" + tsep + "mm" + tsep + \
                "ss" + isotext.enc_zone(dst, zform, ext)
            case = {"op": "dump", "mode": "gregorian", "p": kw, "fmt": fmt,
                    "spec": {"rep": rep, "ext": ext, "nexp": 0, "units": 3,
                             "zform": zform,
                             "off_min": dst[0] * 60 + dst[1]}}
            ctx.case = case
            ctx.ev("cases.small-offset-pairs")
            run_case(ctx, repo, case)
            if jj % 4 == 0:
                # the same with no minutes / no time of day in the format
                units = (jj // 4) % 2
                fmt2 = DATE_FMT[(rep, ext)] + "T" + "hh" * units + \
                    isotext.enc_zone(dst, zform, ext)
                if dst[0] >= 0 and dst[1] >= 0:
                    case = {"op": "dump", "mode": "gregorian", "p": kw,
                            "fmt": fmt2,
                            "spec": {"rep": rep, "ext": ext, "nexp": 0,
                                     "units": units, "zform": zform,
                                     "off_min": dst[0] * 60 + dst[1]}}
                    ctx.case = case
                    ctx.ev("cases.reduced-time-dumps")
                    run_case(ctx, repo, case)
            case = {"op": "tz", "mode": "gregorian", "p": kw,
                    "dest": list(dst)}
            ctx.case = case
            run_case(ctx, repo, case)
    # New Year and week-year boundaries of every century year (leap and
    # common, every weekday they start on) and their neighbours: one hour
    # either side of midnight, re-zoned across it
    j = 0
    years = sorted(set(
        [c + k for c in range(1000, 3001, 100) for k in (-1, 0, 1)] +
        [0, 1, -1, -100, -400, 400, 9998]))
    for mode in R.MODES:
        for y in years:
            ws = R.week_start(mode, y + 1)
            ny = R.days_before_year(mode, y + 1)
            for rd in sorted({ws - 1, ws, ny - 1, ny}):
                for rep in gen.REPS:
                    j += 1
                    if not ctx.mine(j):
                        continue
                    late = (rd in (ws - 1, ny - 1))
                    kw = gen.date_kwargs(mode, rep, rd)
                    kw.update({"hour_of_day": 23 if late else 0,
                               "minute_of_hour": 30 if late else 15,
                               "second_of_minute": 0})
                    src = (0, 0) if late else (0, 30)
                    kw.update(gen.zone_kwargs(src))
                    case = {"op": "tz", "mode": mode, "p": kw,
                            "dest": [1, 0] if late else [0, 0]}
                    ctx.case = case
                    ctx.ev("cases.century-boundaries")
                    run_case(ctx, repo, case)
    # decimal-hour points between offsets whose hour difference and minute
    # difference cancel as plain numbers (+15:00 -> +00:15 is -15 h, +15 min)
    if ctx.worker == 0:
        for src, dest in (((15, 0), (0, 15)), ((-15, -15), (0, -30)),
                          ((0, 30), (30, 0)), ((45, 0), (0, 45)),
                          ((0, 15), (15, 0)), ((0, -45), (-45, 0))):
            for mode in R.MODES:
                for rep in gen.REPS:
                    kw = gen.date_kwargs(mode, rep, R.ymd_to_rd(
                        mode, 2001, 3, 1))
                    kw.update({"hour_of_day": 6,
                               "hour_of_day_decimal": (0.5, 0.25, 0.0)[
                                   len(rep) % 3]})
                    kw.update(gen.zone_kwargs(src))
                    case = {"op": "tz", "mode": mode, "p": kw,
                            "dest": list(dest)}
                    ctx.case = case
                    ctx.ev("cases.cancelling-offset-parts")
                    run_case(ctx, repo, case)
    # every ordered (source, destination) pair of a grid of offsets
    j = 0
    for src in gen.OFFSET_GRID:
        for dest in gen.OFFSET_GRID:
            j += 1
            if not ctx.mine(j):
                continue
            mode = R.MODES[j % 4] if j % 3 == 0 else "gregorian"
            inst = (730000 + j % 400) * 86400 + (0, 1800, 84600)[j % 3]
            case = {"op": "tz", "mode": mode,
                    "p": gen.tp_from_instant(rng, mode, inst, offset=src,
                                             allow_2400=False),
                    "dest": list(dest)}
            ctx.case = case
            ctx.ev("cases.offset-grid")
            run_case(ctx, repo, case)
    offs = all_offsets() + [(0, -m) for m in range(1, 60)]
    i = 0
    for mode in R.MODES:
        pts = boundary_points(mode, rng)
        if ctx.tier == "quick":
            sel = [offs[(k * 37 + ctx.seed * 7) % len(offs)]
                   for k in range(150)] + gen.OFFSET_POOL
        elif mode == "gregorian":
            sel = offs
        else:
            sel = offs[::5]
        for dest in sel:
            for kw in pts:
                i += 1
                if not ctx.mine(i):
                    continue
                case = {"op": "tz", "mode": mode, "p": kw,
                        "dest": list(dest)}
                ctx.case = case
                run_case(ctx, repo, case)
        if ctx.tier == "thorough" and mode == "gregorian":
            ctx.extra["offsets_enumerated"] = len(
                [d for k, d in enumerate(offs)])
    n = 4000 if ctx.tier == "quick" else 16000
    for k in range(n):
        mode = rng.choice(R.MODES) if k % 2 else "gregorian"
        v = k % 10
        if v < 5:
            case = {"op": "tz", "mode": mode,
                    "p": gen.rand_tp(rng, mode, bias=0.8,
                                     integral=(k % 3 != 0)),
                    "dest": list(gen.rand_offset(rng))}
        elif v == 5:
            case = {"op": "utc", "mode": mode,
                    "p": gen.rand_tp(rng, mode, bias=0.8)}
        elif v == 6:
            case = {"op": "local", "mode": mode,
                    "p": gen.rand_tp(rng, mode, bias=0.8),
                    "local_seconds": rng.choice(
                        (0, -1800, 20700, -12600, 49500, -8100,
                         60 * rng.randint(-1439, 1439)))}
            if rng.random() < 0.6:
                case["dst"] = {
                    "alt_seconds": case["local_seconds"] + rng.choice(
                        (3600, 1800, 7200, -3600)),
                    "isdst": rng.choice((0, 1, 0, 1, -1))}
        else:
            case = make_dump_case(rng, mode)
        ctx.case = case
        if k % 401 in (0, 7):
            ctx.sample(case)
        run_case(ctx, repo, case)
        if k % 4 == 0 and case["op"] in ("tz", "utc"):
            tw = gen.twin_of(rng, mode, case["p"])
            if tw is not None:
                case = dict(case, p=tw)
                ctx.case = case
                ctx.ev("cases.twin")
                run_case(ctx, repo, case)
    case = {"op": "tzstr", "mode": "gregorian",
            "zones": [list(o) for o in offs[::(29 if ctx.tier == "quick"
                                                else 1)]]}
    ctx.case = case
    run_case(ctx, repo, case)
