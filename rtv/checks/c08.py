"""C08 - writing a time point out and reading it back is lossless.

Probes on TimePoint.__str__, TimePointDumper.dump and TimePointParser.parse
record each (point, format, text) / (text, point) event; the trace checker
decides every dump->parse chain of the workload against the reference
(same representation, offset, fields; same instant for custom formats) and
the reference decoder reads the text independently of the parser."""
from fractions import Fraction as F

from .. import gen
from .. import isotext as T
from .. import refmodel as R
from ..regime import TOL

RULE = ("cases = (calendar mode, TimePoint kwargs [, custom dump format]); "
        "random valid points over all representations, precision forms "
        "(whole seconds, decimal second/minute/hour of <= 6 digits incl. "
        ".999999/.000001, 24:00), offsets incl. -00:30, years 0, 9999, "
        "negative and expanded with matching digits; custom formats = "
        "complete date form x time form covering p's units x zone form "
        "(literal, placeholder, Z), basic with basic, extended with "
        "extended; a case is non-trivial when the point has a non-zero "
        "time or zone or non-January-1 date; distinct by (p-fields, format)")
DECIDING = ["roundtrip.default", "roundtrip.custom"]
MIN_EVALS = {"roundtrip.default": 4000, "roundtrip.custom": 3000,
             "str.seen": 4000, "parse.seen": 7000}
ASSUMPTIONS = [
    "fractional fields are compared within 1e-6 of their unit (the dumper "
    "prints six decimals); points with integral fields must round-trip to "
    "== and identical fields",
    "a week/ordinal/calendar custom format whose year does not fit the "
    "format's digits may raise TimePointDumperBoundsError (documented)",
]
MODE = "gregorian"
UNIT = {"h": 3600, "hm": 60, "hms": 1}


def install(ctx, repo, probes):
    def post_str(snap, args, kwargs, res, exc):
        ctx.ev("str.seen")
        ctx.last_str = (res, exc)
    probes.wrap(repo.TimePoint, "__str__", post_str)

    def post_dump(snap, args, kwargs, res, exc):
        ctx.ev("dump.seen")
    probes.wrap(repo.dumpers.TimePointDumper, "dump", post_dump)

    def post_parse(snap, args, kwargs, res, exc):
        ctx.ev("parse.seen")
    probes.wrap(repo.parsers.TimePointParser, "parse", post_parse)
    ctx.parsers = {}
    ctx.dumpers = {}
    for rep in gen.REPS:
        for form in ("hms", "hmsf", "hm", "h", "24"):
            ctx.target("default/%s/%s" % (rep, form))
    for m in R.MODES:
        ctx.target("mode/" + m)
    ctx.target("reader/0", "reader/1", "reader/2", "reader/3",
               "own-format/0-digits", "own-format/1-digits",
               "own-format/2-digits", "own-format/3-digits",
               "own-format/variant-1", "own-format/variant-2")
    ctx.target("expanded-year", "negative-year", "zero-hour-negative-minutes",
               "custom/literal-zone", "custom/placeholder-zone", "custom/Z",
               "custom/basic", "custom/ext", "custom/cross-representation")


READERS = ({}, {"assumed_time_zone": (5, 30)},
           {"assumed_time_zone": (-3, -30)},
           {"default_to_unknown_time_zone": True})


def _parser(ctx, repo, n, reader=0):
    """the reading parser; every dumped text spells its zone, so the
    reader's own zone defaults (variants 1-4) must not matter"""
    if (n, reader) not in ctx.parsers:
        ctx.parsers[(n, reader)] = repo.parsers.TimePointParser(
            num_expanded_year_digits=n, **READERS[reader])
    ctx.cls("reader/%d" % reader)
    return ctx.parsers[(n, reader)]


def _fields_close(p, q):
    """same stored fields; fractional ones within 1e-6 of the unit"""
    if R.tp_date(p) != R.tp_date(q):
        return "date fields %r vs %r" % (R.tp_date(p), R.tp_date(q))
    if R.tp_form(p) != R.tp_form(q):
        return "precision form %s vs %s" % (R.tp_form(p), R.tp_form(q))
    for a, b, name in ((p._hour_of_day, q._hour_of_day, "hour"),
                       (p._minute_of_hour, q._minute_of_hour, "minute"),
                       (p._second_of_minute, q._second_of_minute, "second")):
        if a is None:
            continue
        if R.tp_is_integral(p):
            if a != b:
                return "%s %r vs %r" % (name, a, b)
        elif abs(F(a) - F(b)) > F(1, 10**6) + F(1, 10**9):
            return "%s %r vs %r" % (name, a, b)
    tp, tq = p._time_zone, q._time_zone
    if (tp._hours, tp._minutes) != (tq._hours, tq._minutes) or tq._unknown:
        return "offset %r vs %r" % ((tp._hours, tp._minutes),
                                    (tq._hours, tq._minutes))
    return None


def run_case(ctx, repo, case):
    MODE = case.get("mode", "gregorian")
    repo.set_mode(MODE, case)
    try:
        _run_case(ctx, repo, case, MODE)
    finally:
        repo.set_mode("gregorian")


def _run_case(ctx, repo, case, MODE):
    p = repo.tp(case["p"])
    n = p._num_expanded_year_digits
    key = R.tp_key(p)
    if case["op"] == "default":
        ctx.ev("roundtrip.default")
        try:
            s = str(p)
            q = _parser(ctx, repo, n, case.get("reader", 0)).parse(s)
            s2 = str(q)
        except Exception as exc:
            ctx.violation("default.raised", "str/parse round trip of %r "
                          "raised %r" % (key, exc), p=key)
            return
        prob = _fields_close(p, q)
        if prob is None and not R.tp_valid(MODE, q):
            prob = "parsed point invalid"
        kq0 = R.tp_key(q)
        if prob is None and R.tp_is_integral(p) and (
                (q == p) is not True or (p == q) is not True):
            prob = "parsed point does not compare equal"
        if prob is None and (R.tp_key(p) != key or R.tp_key(q) != kq0 or
                             str(p) != s):
            prob = "comparing the two points changed one of them: now " \
                "%r / %r" % (R.tp_key(p), R.tp_key(q))
        if prob is None and s2 != s:
            prob = "str is not a fixpoint: %r then %r" % (s, s2)
        if prob is None:
            # independent reading of the text by the reference decoder
            units = {"hms": 3, "hm": 2, "h": 1}[R.tp_form(p)]
            dec = T.decode(s, key[0], True, n, units)
            if dec is None:
                prob = "text %r is not the default extended form" % s
            else:
                date, sod, off = dec
                if tuple(date) != tuple(key[1]) or off != \
                        R.tp_offset_minutes(p) or abs(sod - R.tp_sod(p)) > \
                        F(UNIT[R.tp_form(p)], 10**6) + F(1, 10**9):
                    prob = "text %r does not spell the point's fields" % s
        if prob:
            ctx.violation("default.wrong", "parse(str(p)) of %r (text %r): "
                          "%s" % (key, s, prob), p=key)
            return
        form = case["form"]
        ctx.cls("default/%s/%s" % (key[0], form))
        if n:
            ctx.cls("expanded-year")
        if key[1][0] < 0:
            ctx.cls("negative-year")
        if key[5] == 0 and key[6] < 0:
            ctx.cls("zero-hour-negative-minutes")
        if key[2:7] != (0, 0, 0, 0, 0) or tuple(key[1][1:]) not in (
                (1, 1), (1,)):
            ctx.nontrivial((key, None))
        return
    # custom format
    ctx.ev("roundtrip.custom")
    spec = case["spec"]
    fmt = case["fmt"]
    nd = spec["nexp"]
    if nd not in ctx.dumpers:
        ctx.dumpers[nd] = repo.dumpers.TimePointDumper(
            num_expanded_year_digits=nd)
    try:
        if case["op"] == "own-format":
            # the point carries the format itself: str(p) must be what the
            # dumper agreed on p's number of year digits prints
            # a complete point may also carry a format meant for truncated
            # points: it does not apply to it
            variant = case.get("variant", 0)
            extra = {"dump_format": fmt}
            if variant == 1:
                extra["truncated_dump_format"] = "--MM-DDThh:mm"
            elif variant == 2:
                extra = {"truncated_dump_format": "-YYMMDDThhmm"}
            own = repo.tp(dict(case["p"], **extra))
            s = str(own)
            ctx.cls("own-format/%d-digits" % nd)
            ctx.cls("own-format/variant-%d" % variant)
            ctx.in_oracle += 1
            try:
                try:
                    ref_s = ctx.dumpers[nd].dump(p, fmt) if variant != 2 \
                        else str(p)
                except Exception:
                    ref_s = None
            finally:
                ctx.in_oracle -= 1
            if ref_s is not None and ref_s != s:
                ctx.violation("own-format.differs", "str() of %r carrying "
                              "%r is %r, expected %r (dumper for %d expanded "
                              "digits)" % (key, extra, s, ref_s, nd), p=key,
                              fmt=fmt)
                return
            if variant == 2:
                # printed in the default form: the rest is the default
                # round trip, decided by the "default" cases
                return
        else:
            s = ctx.dumpers[nd].dump(p, fmt)
    except repo.exceptions.TimePointDumperBoundsError as exc:
        # legitimate only when the year the format must print (in the
        # format's representation, after its zone conversion) does not fit
        off = spec.get("target_off")
        if off is None:
            off = R.tp_offset_minutes(p)
        local = R.tp_instant(MODE, p) + off * 60
        day = int(local // 86400)
        if p._hour_of_day == 24 and off == R.tp_offset_minutes(p):
            day = R.tp_rd(MODE, p)      # 24:00 is printed on the spelled day
        yr = R.rd_to_date(MODE, spec["rep"], day)[0]
        fits = abs(yr) <= 10 ** (4 + nd) - 1 if "+X" in fmt \
            else 0 <= yr <= 9999
        if fits:
            ctx.violation("custom.bounds", "dump(%r, %r) raised %s although "
                          "year %d fits the format" % (key, fmt, exc, yr),
                          p=key, fmt=fmt)
        else:
            ctx.ev("custom.bounds_error")
        return
    except Exception as exc:
        ctx.violation("custom.raised", "dump(%r, %r) raised %r" % (
            key, fmt, exc), p=key, fmt=fmt)
        return
    try:
        q = _parser(ctx, repo, nd, case.get("reader", 0)).parse(s)
    except Exception as exc:
        ctx.violation("custom.unparseable", "dump(%r, %r) = %r cannot be "
                      "parsed back: %r" % (key, fmt, s, exc), p=key, fmt=fmt)
        return
    fractional = not R.tp_is_integral(p)
    if R.tp_form(p) == "h" and spec.get("target_off") is not None and \
            (spec["target_off"] - R.tp_offset_minutes(p)) % 60:
        fractional = True    # a decimal hour absorbs the offset's minutes
    tol = F(UNIT[spec["smallest"]], 10**6) + F(1, 10**8) \
        if fractional else F(0)
    ip, iq = R.tp_instant(MODE, p), R.tp_instant(MODE, q)
    prob = None
    if not R.tp_valid(MODE, q):
        prob = "parsed point invalid"
    elif abs(ip - iq) > tol:
        prob = "instants differ by %s s" % float(iq - ip)
    elif R.tp_rep(q) != spec["rep"]:
        prob = "parsed representation %s" % R.tp_rep(q)
    elif not fractional and ((q == p) is not True or
                             (p == q) is not True):
        prob = "parsed point does not compare equal"
    if prob is None and case["op"] == "own-format":
        # the point that carries the format, compared both ways round, and
        # looked at again afterwards
        kq0 = R.tp_key(q)
        if not fractional and ((own == q) is not True or
                               (q == own) is not True):
            prob = "parsed point does not compare equal to the point that " \
                "carries the format"
        elif R.tp_key(own) != key or R.tp_key(q) != kq0 or str(own) != s:
            prob = "comparing the two points changed one of them: now %r " \
                "/ %r, str %r" % (R.tp_key(own), R.tp_key(q), str(own))
    if prob:
        ctx.violation("custom.wrong", "dump(%r, %r) = %r parsed back as %r: "
                      "%s" % (key, fmt, s, R.tp_key(q), prob), p=key,
                      fmt=fmt)
        return
    ctx.cls("custom/" + spec["zkind"])
    ctx.cls("custom/" + ("ext" if spec["ext"] else "basic"))
    if spec["rep"] != key[0]:
        ctx.cls("custom/cross-representation")
    ctx.nontrivial((key, fmt))


DATE_FMT = {("cal", True): "CCYY-MM-DD", ("cal", False): "CCYYMMDD",
            ("ord", True): "CCYY-DDD", ("ord", False): "CCYYDDD",
            ("week", True): "CCYY-Www-D", ("week", False): "CCYYWwwD"}


def make_custom(rng, pkw, pform, off):
    """a qualifying format (R5) for a point of the given form"""
    rep = rng.choice(gen.REPS)
    ext = rng.random() < 0.5
    y = pkw["year"]
    nexp = pkw.get("num_expanded_year_digits", 0)
    dfmt = DATE_FMT[(rep, ext)]
    if nexp or rng.random() < 0.2:
        nexp = nexp or 2
        dfmt = "+X" + dfmt
    sep = ":" if ext else ""
    frac = pform in ("hmsf", "hm", "h")
    if pform in ("hms", "24"):
        tf, smallest = rng.choice((("hh%smm%sss" % (sep, sep), "hms"),
                                   ("hh%smm%sss,tt" % (sep, sep), "hms"))), \
            "hms"
        tf = tf[0]
    elif pform == "hmsf":
        tf, smallest = "hh%smm%sss%stt" % (sep, sep, rng.choice(",.")), "hms"
    elif pform == "hm":
        tf, smallest = rng.choice((
            ("hh%smm%snn" % (sep, rng.choice(",.")), "hm"),
            ("hh%smm%sss,tt" % (sep, sep), "hms")))
    else:
        # (hh:mm,nn is not a qualifying format for a decimal-hour point:
        # the derived minute is whole and the rest goes to the seconds, R5)
        tf, smallest = rng.choice((
            ("hh%sii" % rng.choice(",."), "h"),
            ("hh%smm%sss,tt" % (sep, sep), "hms")))
    zk = rng.choice(("literal-zone", "placeholder-zone", "Z"))
    target = None
    if zk == "Z":
        zf = "Z"
        target = 0
    elif zk == "placeholder-zone":
        if off[1] == 0 and rng.random() < 0.3:
            zf = "+hh"
        else:
            zf = "+hh:mm" if ext else "+hhmm"
    else:
        lit = gen.rand_offset(rng)
        if rng.random() < 0.3:
            lit = (lit[0], 0)
            zf = T.enc_zone(lit, "hh", ext)
        else:
            zf = T.enc_zone(lit, "hhmm", ext)
        target = lit[0] * 60 + lit[1]
    return dfmt + "T" + tf + zf, {"rep": rep, "ext": ext, "nexp": nexp,
                                  "smallest": smallest, "zkind": zk,
                                  "target_off": target}


def make_point(rng, MODE="gregorian"):
    form = rng.choice(("hms", "hms", "hmsf", "hm", "h", "24"))
    rep = rng.choice(gen.REPS)
    v = rng.random()
    if v < 0.2:
        lim = rng.choice((9999, 999999))
        y = rng.choice((0, 9999, -1, -9999, 10000, lim, -lim,
                        rng.randint(-lim, lim)))
    else:
        y = gen.rand_year(rng, 0, 9999)
    rd = gen.rand_rd(rng, MODE, y, bias=0.5)
    kw = gen.date_kwargs(MODE, rep, rd)
    if not 0 <= kw["year"] <= 9999:
        kw["num_expanded_year_digits"] = 2 if abs(kw["year"]) <= 999999 \
            else 3
    elif rng.random() < 0.15:
        kw["num_expanded_year_digits"] = rng.choice((1, 2, 3))
    tk = gen.time_kwargs(rng, form)
    if form == "24":
        # (the T24,0 / T24:00,0 spellings are decimal forms: a format down
        # to whole seconds is not a qualifying format for them, R5)
        tk = {k: v for k, v in tk.items() if not k.endswith("_decimal")}
    for k in list(tk):
        if k.endswith("_decimal") and tk.get("hour_of_day") != 24:
            d = rng.randint(1, 6)
            tk[k] = rng.choice((0.5, 0.999999, 0.000001, 0.1, 0.25,
                                0.999996, 0.999998, 0.999995, 0.99999,
                                rng.randrange(10 ** d) / 10 ** d))
    kw.update(tk)
    off = gen.rand_offset(rng)
    kw.update(gen.zone_kwargs(off))
    return kw, form, off


def workload(ctx, repo):
    rng = ctx.rng
    # half an hour beside midnight on the days around New Year of a 28-year
    # cycle, dumped in another representation with a literal zone that
    # carries the point over midnight (and so over a week-year / year edge)
    if ctx.worker == 0:
        for mode in R.MODES:
            for y in range(2000, 2028 if mode == "gregorian" else 2012):
                ny = R.days_before_year(mode, y + 1)
                ws = R.week_start(mode, y + 1)
                for rd in sorted({ny - 4, ny - 3, ny - 1, ny, ny + 2, ny + 3,
                                  ws - 1, ws}):
                    for late in (True, False):
                        src = gen.REPS[(rd + y) % 3]
                        kw = gen.date_kwargs(mode, src, rd)
                        kw.update({"hour_of_day": 23 if late else 0,
                                   "minute_of_hour": 30,
                                   "second_of_minute": 0})
                        kw.update(gen.zone_kwargs((0, 0)))
                        tgt = 60 if late else -60
                        for rep, dfmt in (("week", "CCYY-Www-D"),
                                          ("ord", "CCYY-DDD"),
                                          ("cal", "CCYY-MM-DD")):
                            if rep == src and mode == "gregorian" and \
                                    rd not in (ws - 1, ws):
                                continue
                            fmt = dfmt + "Thh:mm:ss" + ("+01:00" if late
                                                        else "-01:00")
                            case = {"op": "custom", "p": kw, "fmt": fmt,
                                    "mode": mode, "reader": y % 4,
                                    "spec": {"rep": rep, "ext": True,
                                             "nexp": 0, "smallest": "hms",
                                             "zkind": "literal-zone",
                                             "target_off": tgt}}
                            ctx.case = case
                            ctx.ev("cases.new-year-dumps")
                            run_case(ctx, repo, case)
    # sub-hour offsets of either sign dumped with sub-hour literal zones of
    # either sign
    if ctx.worker == 0:
        for poff in ((0, 30), (0, -30), (0, 45), (0, -15), (0, 0)):
            for lit in ((0, 30), (0, -30), (0, -45), (0, 15)):
                for rep in gen.REPS:
                    kw = gen.date_kwargs("gregorian", rep, R.ymd_to_rd(
                        "gregorian", 2024, 3, 10))
                    kw.update({"hour_of_day": 6, "minute_of_hour": 15,
                               "second_of_minute": 30})
                    kw.update(gen.zone_kwargs(poff))
                    ext = rep != "ord"
                    fmt = DATE_FMT[(rep, ext)] + (
                        "Thh:mm:ss" if ext else "Thhmmss") + T.enc_zone(
                            lit, "hhmm", ext)
                    case = {"op": "custom", "p": kw, "fmt": fmt,
                            "mode": "gregorian", "reader": 0,
                            "spec": {"rep": rep, "ext": ext, "nexp": 0,
                                     "smallest": "hms",
                                     "zkind": "literal-zone",
                                     "target_off": lit[0] * 60 + lit[1]}}
                    ctx.case = case
                    ctx.ev("cases.sub-hour-literal-zones")
                    run_case(ctx, repo, case)
    n = 18000 if ctx.tier == "quick" else 60000
    for k in range(n):
        mode = R.MODES[k % 4] if k % 5 == 0 else "gregorian"
        kw, form, off = make_point(rng, mode)
        case = {"op": "default", "p": kw, "form": form, "mode": mode,
                "reader": (k // 2) % 4}
        ctx.cls("mode/" + mode)
        if k % 6 == 0:
            tw = gen.twin_of(rng, mode, kw)
            if tw is not None and "num_expanded_year_digits" in kw:
                tw["num_expanded_year_digits"] = \
                    kw["num_expanded_year_digits"]
            nd = (tw or {}).get("num_expanded_year_digits", 0)
            if tw is not None and (
                    0 <= tw["year"] <= 9999 or
                    (nd and abs(tw["year"]) <= 10 ** (4 + nd) - 1)):
                ctx.case = dict(case, p=tw, form="hms")
                ctx.ev("cases.twin")
                run_case(ctx, repo, ctx.case)
        ctx.case = case
        if k % 701 == 0:
            ctx.sample(case)
        run_case(ctx, repo, case)
        if k % 7 == 3:
            fmt, spec = make_custom(rng, kw, form, off)
            nd = kw.get("num_expanded_year_digits", 0)
            if spec["nexp"] == nd or (not nd and "+X" not in fmt):
                spec["nexp"] = nd
                case = {"op": "own-format", "p": kw, "fmt": fmt,
                        "spec": spec, "mode": mode, "reader": k % 4,
                        "variant": (k // 7) % 3}
                ctx.case = case
                ctx.ev("cases.own-format")
                run_case(ctx, repo, case)
        if k % 3 != 2:
            fmt, spec = make_custom(rng, kw, form, off)
            case = {"op": "custom", "p": kw, "fmt": fmt, "spec": spec,
                    "mode": mode, "reader": (k // 3) % 4}
            ctx.case = case
            if k % 701 == 1:
                ctx.sample(case)
            run_case(ctx, repo, case)
