"""C09 - impossible dates and malformed text are rejected, cleanly.

Monitors: exception-observing wrappers on TimePoint.__init__,
TimeZone.__init__ and the three parsers' parse methods (acceptance decision
vs the reference's legality of the tuple in the active calendar mode;
exception type must derive from ValueError), plus a logical step budget
(sys.monitoring LINE events in repository code) around every parse."""
import itertools
import re

from .. import core
from .. import gen
from .. import isotext as T
from .. import refmodel as R

RULE = ("cases = (a) field tuples in and around the legal ranges: month "
        "-1..14 x day -1..33, day-of-year -1..368, week -1..55 x weekday "
        "-1..9 for every year type and calendar mode, hour -1..25 x minute/"
        "second in {-1,0,59,60}, zone hours {-100,-99,-1,0,1,99,100} x "
        "minutes -61..61, through the constructor and through each text "
        "notation that can spell the value; (b) fuzzed strings = mutations "
        "(substitute/insert/delete/duplicate/splice, alphabet incl. non-"
        "ASCII digits, signs, separators) of ~40 valid seeds per parser in 5 "
        "parser configurations; non-trivial = tuple within 2 of a range "
        "boundary, or a fuzzed string that differs from every seed; "
        "distinct by (mode, entry point, tuple or string)")
DECIDING = ["ctor.post", "tz.post", "parse.grid", "parse.fuzz"]
MIN_EVALS = {"ctor.post": 8000, "tz.post": 800, "parse.grid": 3000,
             "parse.fuzz": 15000, "parse.long_digits": 100}
MIN_EVALS_THOROUGH = {"ctor.post": 20000, "tz.post": 800,
                      "parse.grid": 12000, "parse.fuzz": 150000,
                      "parse.long_digits": 500}
EXHAUSTIVE = {
    "thorough": "constructor grids listed in the rule (month x day, "
                "day-of-year, week x weekday per year type and mode; hour x "
                "minute x second; zone hours x minutes) enumerated completely",
    "quick": "constructor grids listed in the rule enumerated completely for "
             "two year types per mode",
}
ASSUMPTIONS = [
    "texts with digit runs of 22-60 characters (where no date arithmetic can "
    "follow) are parsed in a child process under a CPU-time limit of 20 s "
    "(RLIMIT_CPU, not wall clock): the regular-expression engine cannot be "
    "counted in line events; exceeding it on a < 100-character text is "
    "reported as a hang",
    "termination is decided in logical steps: more than 300000 + 2000*len "
    "LINE events in repository code during one parse is an overrun unless "
    "the reference's reading of the text says the work is linear in a large "
    "literal (then the case is counted as skipped-large)",
    "digit runs in fuzzed text are capped (7 digits; 3 for recurrences)",
]

_FULL_DATE = re.compile(
    r"^(?:[+-]\d{5,}|\d{4})(?:-?\d\d(?:-?\d\d)?|-?\d{3}|-?W\d\d(?:-?\d)?)?$"
    r"|^\d\d$|^\+\d{2,}$|^-\d{5,}$")


def is_truncated_form(part):
    """reference reading: the date part of a date-time expression is not a
    complete or reduced-precision date (so it can only be a truncated form)"""
    date = part.split("T", 1)[0]
    return not _FULL_DATE.match(date)


def classify_trunc_recurrence(kind, case, detail):
    if kind != "fuzz.exception-type" or not case or \
            case.get("parser") != "TimeRecurrenceParser":
        return False
    if detail.get("exc") != "TypeError" or case.get("cfg", 0) % 3 != 1:
        return False
    parts = case["text"].split("/")[1:]
    points = [p for p in parts if not p.startswith("P")]
    return any(is_truncated_form(p) for p in points)


CLASSIFIERS = {"c09_truncated_point_in_recurrence": classify_trunc_recurrence}
FINDING_EXAMPLES = {
    "c09_truncated_point_in_recurrence": {
        "op": "fuzz", "mode": "gregorian", "parser": "TimeRecurrenceParser",
        "text": "R3/T--15/PT1H", "cfg": 1},
}

YEAR_TYPES = {"gregorian": [2001, 2004, 1900, 2000, 2015, 2020, 0, -1],
              "360day": [2001, 2004], "365day": [2001, 2004],
              "366day": [2001, 2004]}


def install(ctx, repo, probes):
    TP, TZ = repo.TimePoint, repo.TimeZone
    ctx.budget = core.Budget(repo.path)
    ctx.expect = None
    BadInput = repo.exceptions.BadInputError

    def post_ctor(snap, args, kwargs, res, exc):
        e = ctx.expect
        if e is None or e.get("via") != "ctor" or kwargs.get(
                "is_empty_instance"):
            return
        ctx.ev("ctor.post")
        _judge(ctx, e, exc, args[0])
    probes.wrap(TP, "__init__", post_ctor)

    def post_tz(snap, args, kwargs, res, exc):
        e = ctx.expect
        if e is None or e.get("via") != "tz":
            return
        ctx.ev("tz.post")
        _judge(ctx, e, exc, args[0])
    probes.wrap(TZ, "__init__", post_tz)

    def make_parse(name):
        def post(snap, args, kwargs, res, exc):
            e = ctx.expect
            if e is None or e.get("via") != name:
                return
            if e.get("fuzz"):
                ctx.ev("parse.fuzz")
                if exc is not None:
                    if not isinstance(exc, ValueError):
                        ctx.violation(
                            "fuzz.exception-type", "%s.parse(%r) raised %s: "
                            "%s" % (name, args[1], type(exc).__name__, exc),
                            text=args[1], parser=name,
                            exc=type(exc).__name__)
                    else:
                        ctx.cls("fuzz/%s/rejected" % name)
                else:
                    ctx.cls("fuzz/%s/accepted" % name)
                    if name == "DurationParser":
                        # a returned Duration is usable: every field is a
                        # number and its length can be taken
                        try:
                            ok = all(getattr(res, "_" + f) is not None
                                     for f in ("years", "months", "days",
                                               "hours", "minutes",
                                               "seconds")) \
                                or res._weeks is not None
                            res.get_seconds()
                            hash(res)
                        except Exception:
                            ok = False
                        if not ok:
                            ctx.violation("fuzz.invalid-object", "%r parsed "
                                          "to an unusable Duration %r" % (
                                              args[1], {
                                                  f: getattr(res, "_" + f)
                                                  for f in ("years", "months",
                                                            "weeks", "days",
                                                            "hours",
                                                            "minutes",
                                                            "seconds")}),
                                          text=args[1])
                    if name == "TimePointParser" and not res._truncated \
                            and not kwargs.get("is_duration") and \
                            not R.tp_valid(R.canon(repo.CALENDAR.mode), res):
                        ctx.violation("fuzz.invalid-object", "%r parsed to "
                                      "an invalid TimePoint %r" % (
                                          args[1], R.tp_key(res)),
                                      text=args[1])
                return
            ctx.ev("parse.grid")
            _judge(ctx, e, exc, res)
        return post
    probes.wrap(repo.parsers.TimePointParser, "parse",
                make_parse("TimePointParser"))
    probes.wrap(repo.parsers.DurationParser, "parse",
                make_parse("DurationParser"))
    probes.wrap(repo.parsers.TimeRecurrenceParser, "parse",
                make_parse("TimeRecurrenceParser"))
    ctx.target("operator/legal", "operator/refused")
    ctx.target("strptime/legal", "strptime/refused",
               "strptime/legal/dump_format", "strptime/refused/dump_format")
    for name in ("TimePointParser", "DurationParser",
                 "TimeRecurrenceParser"):
        ctx.target("fuzz/%s/rejected" % name, "fuzz/%s/accepted" % name)
    P = repo.parsers
    ctx.parsers = [
        P.TimePointParser(),
        P.TimePointParser(allow_truncated=True,
                          default_to_unknown_time_zone=True),
        P.TimePointParser(allow_only_basic=True, assumed_time_zone=(0, 0)),
        P.TimePointParser(num_expanded_year_digits=0, allow_truncated=True),
        P.TimePointParser(num_expanded_year_digits=3,
                          assumed_time_zone=(-3, -30)),
        P.TimePointParser(allow_only_basic=True, allow_truncated=True),
    ]
    ctx.dparser = P.DurationParser()
    ctx.rparsers = [P.TimeRecurrenceParser(),
                    P.TimeRecurrenceParser(
                        timepoint_parser=ctx.parsers[1]),
                    P.TimeRecurrenceParser(
                        timepoint_parser=ctx.parsers[2])]
    for mode in R.MODES:
        for what in ("cal", "ord", "week"):
            for via in ("ctor", "text"):
                ctx.target("grid/%s/%s/%s/accept" % (mode, what, via),
                           "grid/%s/%s/%s/reject" % (mode, what, via))
    for what in ("time", "zone"):
        for via in ("ctor", "text"):
            ctx.target("grid/%s/%s/accept" % (what, via),
                       "grid/%s/%s/reject" % (what, via))


def _judge(ctx, e, exc, obj):
    legal = e["legal"]
    if exc is not None and not isinstance(exc, ValueError):
        ctx.violation("exception-type", "%s on %r raised %s: %s" % (
            e["via"], e["what"], type(exc).__name__, exc), what=e["what"])
        return
    if legal and exc is not None:
        ctx.violation("refused-valid", "%s refused the valid %r (mode %s): "
                      "%s" % (e["via"], e["what"], e["mode"], exc),
                      what=e["what"])
    elif not legal and exc is None:
        ctx.violation("admitted-impossible", "%s admitted the impossible %r "
                      "(mode %s)" % (e["via"], e["what"], e["mode"]),
                      what=e["what"])
    else:
        if legal and e.get("fields") is not None:
            got = _fields(obj, e["fields"])
            if got != e["fields"]:
                ctx.violation("accepted-wrong-fields", "%s accepted %r but "
                              "stored %r" % (e["via"], e["what"], got),
                              what=e["what"])
                return
        ctx.cls(e["cls"] + ("/accept" if legal else "/reject"))


def _fields(obj, want):
    out = {}
    for k in want:
        v = getattr(obj, "_" + k, None)
        out[k] = v
    return out


# --------------------------------------------------------------------------
# grids

def legal_time(h, m, s):
    if not (0 <= h <= 24):
        return False
    if h == 24:
        return m == 0 and s == 0
    return 0 <= m <= 59 and 0 <= s <= 59


def legal_zone(h, m):
    if not -99 <= h <= 99:
        return False
    if h > 0:
        return 0 <= m <= 59
    if h < 0:
        return -59 <= m <= 0
    return -59 <= m <= 59


def grid_cases(ctx, mode, years):
    """yield (case) for constructor and text grids"""
    for y in years:
        for mth in range(-1, 15):
            for d in range(-1, 34):
                legal = 1 <= mth <= 12 and 1 <= d <= R.month_len(mode, y, mth)
                yield {"op": "ctor", "mode": mode, "what": "cal",
                       "kw": {"year": y, "month_of_year": mth,
                              "day_of_month": d}, "legal": legal,
                       "near": abs(d - 29) <= 2 or d <= 1 or mth in (0, 1, 12,
                                                                    13)}
                if 0 <= mth <= 99 and 0 <= d <= 99 and 0 <= y <= 9999:
                    for ext in (True, False):
                        sep = "-" if ext else ""
                        yield {"op": "text", "mode": mode, "what": "cal",
                               "text": "%04d%s%02d%s%02d" % (y, sep, mth,
                                                             sep, d),
                               "legal": legal,
                               "fields": {"year": y, "month_of_year": mth,
                                          "day_of_month": d}}
        for doy in range(-1, 369):
            legal = 1 <= doy <= R.year_len(mode, y)
            yield {"op": "ctor", "mode": mode, "what": "ord",
                   "kw": {"year": y, "day_of_year": doy}, "legal": legal,
                   "near": doy <= 2 or doy >= 358}
            if 0 <= doy <= 999 and 0 <= y <= 9999 and (doy < 3 or doy > 355
                                                       or doy % 25 == 0):
                for ext in (True, False):
                    yield {"op": "text", "mode": mode, "what": "ord",
                           "text": "%04d%s%03d" % (y, "-" if ext else "",
                                                   doy),
                           "legal": legal,
                           "fields": {"year": y, "day_of_year": doy}}
        for w in range(-1, 56):
            for dow in range(-1, 10):
                legal = (1 <= w <= R.weeks_in_year(mode, y) and
                         1 <= dow <= 7)
                yield {"op": "ctor", "mode": mode, "what": "week",
                       "kw": {"year": y, "week_of_year": w,
                              "day_of_week": dow}, "legal": legal,
                       "near": w <= 1 or w >= 50 or dow in (0, 1, 7, 8)}
                if 0 <= w <= 99 and 0 <= dow <= 9 and 0 <= y <= 9999 and \
                        (w < 2 or w > 50 or dow in (0, 7, 8)):
                    for ext in (True, False):
                        sep = "-" if ext else ""
                        yield {"op": "text", "mode": mode, "what": "week",
                               "text": "%04d%sW%02d%s%d" % (y, sep, w, sep,
                                                            dow),
                               "legal": legal,
                               "fields": {"year": y, "week_of_year": w,
                                          "day_of_week": dow}}


def edge_cases(mode, years):
    """only the values beside each year's own limits, over many years
    (every year type, year 0 and its neighbours, both ends of the range)"""
    for y in years:
        for mth, d in ((2, 28), (2, 29), (2, 30), (2, 31), (4, 30), (4, 31),
                       (12, 31), (12, 32), (1, 0), (0, 1), (13, 1)):
            legal = 1 <= mth <= 12 and 1 <= d <= R.month_len(mode, y, mth)
            yield {"op": "ctor", "mode": mode, "what": "cal",
                   "kw": {"year": y, "month_of_year": mth,
                          "day_of_month": d}, "legal": legal, "near": True}
        for doy in (0, 1, 360, 361, 365, 366, 367):
            yield {"op": "ctor", "mode": mode, "what": "ord",
                   "kw": {"year": y, "day_of_year": doy},
                   "legal": 1 <= doy <= R.year_len(mode, y), "near": True}
        for w in (0, 1, 51, 52, 53, 54):
            for dow in (1, 4, 7):
                legal = 1 <= w <= R.weeks_in_year(mode, y)
                yield {"op": "ctor", "mode": mode, "what": "week",
                       "kw": {"year": y, "week_of_year": w,
                              "day_of_week": dow}, "legal": legal,
                       "near": True}
                if 0 <= y <= 9999 and w >= 52 and dow != 4:
                    ext = (y + w + dow) % 2 == 0
                    sep = "-" if ext else ""
                    yield {"op": "text", "mode": mode, "what": "week",
                           "text": "%04d%sW%02d%s%d" % (y, sep, w, sep, dow),
                           "legal": legal,
                           "fields": {"year": y, "week_of_year": w,
                                      "day_of_week": dow}}


def special_date_time_cases():
    """the time-of-day limits on the dates a leap second could fall on (and
    some others), in UTC and other zones: second 60 is never admitted"""
    for (y, mth, d) in ((2016, 12, 31), (2015, 6, 30), (2016, 6, 30),
                        (2000, 2, 29), (2016, 12, 30), (1972, 12, 31)):
        for h, mi, sec in ((23, 59, 59), (23, 59, 60), (23, 59, 61),
                           (23, 60, 0), (22, 59, 60), (0, 0, 60),
                           (24, 0, 0), (24, 0, 1)):
            legal = (h < 24 and mi < 60 and sec < 60) or (h, mi, sec) == (
                24, 0, 0)
            for zone in ((0, 0), (1, 0), None):
                kw = {"year": y, "month_of_year": mth, "day_of_month": d,
                      "hour_of_day": h, "minute_of_hour": mi,
                      "second_of_minute": sec}
                ztxt = ""
                if zone is not None:
                    kw.update(time_zone_hour=zone[0],
                              time_zone_minute=zone[1])
                    ztxt = "Z" if zone == (0, 0) else "+01:00"
                yield {"op": "ctor", "mode": "gregorian", "what": "time",
                       "kw": kw, "legal": legal, "near": True,
                       "no_fields": True}
                yield {"op": "text", "mode": "gregorian", "what": "time",
                       "text": "%04d-%02d-%02dT%02d:%02d:%02d%s" % (
                           y, mth, d, h, mi, sec, ztxt), "legal": legal}
                yield {"op": "text", "mode": "gregorian", "what": "time",
                       "text": "%04d%02d%02dT%02d%02d%02d%s" % (
                           y, mth, d, h, mi, sec, ztxt.replace(":", "")),
                       "legal": legal}


def operator_cases():
    """the notations DateTimeOperator.date_parse hands to the C library
    (ctime, Unix date, custom --parse-format): impossible fields are still
    refused"""
    for text, fmt, legal in (
            ("Sat Jan  1 12:34:56 2000", None, True),
            ("Sat Jan  1 12:34:60 2000", None, False),
            ("Sat Jan  1 12:34:61 2000", None, False),
            ("Sat Jan  1 12:60:00 2000", None, False),
            ("Sat Jan  1 25:00:00 2000", None, False),
            ("Tue Feb 30 12:00:00 2000", None, False),
            ("Sat 01 Jan 12:34:60 UTC 2000", None, False),
            ("01 Jan 2000 12:34:56", "%d %b %Y %H:%M:%S", True),
            ("01 Jan 2000 12:34:60", "%d %b %Y %H:%M:%S", False),
            ("31 Feb 2000 12:34:00", "%d %b %Y %H:%M:%S", False),
            ("29 Feb 2001 12:34:00", "%d %b %Y %H:%M:%S", False)):
        yield {"op": "operator", "mode": "gregorian", "text": text,
               "fmt": fmt, "legal": legal}


def strptime_cases(mode, years):
    for y in years:
        for mth, d in ((2, 28), (2, 29), (2, 30), (2, 31), (4, 30), (4, 31),
                       (12, 31), (12, 32), (1, 0), (0, 1), (13, 1), (6, 15)):
            legal = 1 <= mth <= 12 and 1 <= d <= R.month_len(mode, y, mth)
            for df in (None, "CCYY-MM-DD"):
                yield {"op": "strptime", "mode": mode, "fmt": "%Y-%m-%d",
                       "text": "%04d-%02d-%02d" % (y, mth, d),
                       "legal": legal, "dump_format": df}
        for doy in (0, 1, 360, 361, 365, 366, 367):
            for df in (None, "CCYY-DDD"):
                yield {"op": "strptime", "mode": mode, "fmt": "%Y%j",
                       "text": "%04d%03d" % (y, doy),
                       "legal": 1 <= doy <= R.year_len(mode, y),
                       "dump_format": df}
        for h, m, sec, legal in ((23, 59, 59, True), (24, 0, 0, True),
                                 (24, 0, 1, False), (24, 30, 0, False),
                                 (25, 0, 0, False), (12, 60, 0, False),
                                 (12, 0, 60, False), (0, 0, 0, True)):
            for df in (None, "CCYYMMDDThhmmss"):
                yield {"op": "strptime", "mode": mode,
                       "fmt": "%Y-%m-%dT%H:%M:%S",
                       "text": "%04d-01-15T%02d:%02d:%02d" % (y, h, m, sec),
                       "legal": legal, "dump_format": df}


EDGE_YEARS = list(range(-12, 13)) + list(range(1895, 1906)) + \
    list(range(1996, 2033)) + list(range(2095, 2106)) + \
    list(range(9988, 10000)) + [400, 800, 1600, 2400, -400, -2000, 1000] + \
    [10 ** 16 + k for k in range(8)] + [2 ** 53 + 1, 2 ** 53 + 5,
                                        10 ** 17 + 3, 10 ** 18 + 5,
                                        -2 * 10 ** 16 - 3, -10 ** 17 - 1]
# (the last rows: years beyond the integers a float holds exactly)


def truncated_cases(mode):
    """truncated points: a field given without the fields above it is
    bounded by the mode's largest month / leap year / 53 weeks"""
    ml = R.month_lengths(mode, 2004)        # the mode's leap table
    for d in range(-1, 34):
        legal = 1 <= d <= max(ml)
        yield {"op": "ctor", "mode": mode, "what": "cal",
               "kw": {"truncated": True, "day_of_month": d}, "legal": legal,
               "near": True, "no_fields": True}
        if 0 <= d <= 99:
            yield {"op": "text", "mode": mode, "what": "cal",
                   "text": "---%02d" % d, "legal": legal, "fields": None,
                   "cfg": 1}
    for mth in (0, 1, 2, 4, 12, 13):
        for d in (0, 1, 28, 29, 30, 31, 32):
            legal = 1 <= mth <= 12 and 1 <= d <= ml[mth - 1]
            yield {"op": "ctor", "mode": mode, "what": "cal",
                   "kw": {"truncated": True, "month_of_year": mth,
                          "day_of_month": d}, "legal": legal, "near": True,
                   "no_fields": True}
            yield {"op": "text", "mode": mode, "what": "cal",
                   "text": "--%02d%02d" % (mth, d), "legal": legal,
                   "fields": None, "cfg": 1}
    for doy in (-1, 0, 1, 359, 360, 361, 365, 366, 367):
        legal = 1 <= doy <= sum(ml)
        yield {"op": "ctor", "mode": mode, "what": "ord",
               "kw": {"truncated": True, "day_of_year": doy}, "legal": legal,
               "near": True, "no_fields": True}
        if doy >= 0:
            yield {"op": "text", "mode": mode, "what": "ord",
                   "text": "-%03d" % doy, "legal": legal, "fields": None,
                   "cfg": 1}
    for w in (-1, 0, 1, 52, 53, 54):
        for dow in (0, 1, 7, 8):
            legal = 1 <= w <= 53 and 1 <= dow <= 7
            yield {"op": "ctor", "mode": mode, "what": "week",
                   "kw": {"truncated": True, "week_of_year": w,
                          "day_of_week": dow}, "legal": legal, "near": True,
                   "no_fields": True}
            if w >= 0:
                yield {"op": "text", "mode": mode, "what": "week",
                       "text": "-W%02d%d" % (w, dow), "legal": legal,
                       "fields": None, "cfg": 1}


    # seconds (or minutes) on their own, with and without a truncated date
    for sec in (-1, 0, 30, 59, 60, 61, 75):
        legal = 0 <= sec <= 59
        yield {"op": "ctor", "mode": mode, "what": "time",
               "kw": {"truncated": True, "second_of_minute": sec},
               "legal": legal, "near": True, "no_fields": True}
        yield {"op": "ctor", "mode": mode, "what": "time",
               "kw": {"truncated": True, "minute_of_hour": sec},
               "legal": legal, "near": True, "no_fields": True}
        yield {"op": "ctor", "mode": mode, "what": "time",
               "kw": {"truncated": True, "day_of_month": 5,
                      "second_of_minute": sec},
               "legal": legal, "near": True, "no_fields": True}
        if sec >= 0:
            for head in ("", "-W-5", "--0228", "-036", "---12"):
                for tail in ("", "Z", ",5"):
                    yield {"op": "text", "mode": mode, "what": "time",
                           "text": "%sT--%02d%s" % (head, sec, tail),
                           "legal": legal, "fields": None, "cfg": 1}
                yield {"op": "text", "mode": mode, "what": "time",
                       "text": "%sT-%02d" % (head, sec),
                       "legal": legal, "fields": None, "cfg": 1}
    # a weekday on its own (no week number beside it)
    for dow in range(-1, 11):
        legal = 1 <= dow <= 7
        yield {"op": "ctor", "mode": mode, "what": "week",
               "kw": {"truncated": True, "day_of_week": dow}, "legal": legal,
               "near": True, "no_fields": True}
        for y in (2001, 2004):
            yield {"op": "ctor", "mode": mode, "what": "week",
                   "kw": {"year": y, "day_of_week": dow}, "legal": legal,
                   "near": True, "no_fields": True}
        if 0 <= dow <= 9:
            for tail in ("", "T06", "T0630Z"):
                yield {"op": "text", "mode": mode, "what": "week",
                       "text": "-W-%d%s" % (dow, tail), "legal": legal,
                       "fields": None, "cfg": 1}
    # a two-digit year beside month and day / day of year: the year's own
    # leap status decides (century years left out: 00 could be 1900 or 2000)
    for yy in (1, 3, 4, 96, 99, 20, 21):
        yl = R.month_lengths(mode, yy)
        for mth, d in ((2, 28), (2, 29), (2, 30), (2, 31), (4, 30), (4, 31),
                       (12, 31), (12, 32), (1, 0), (13, 1)):
            legal = 1 <= mth <= 12 and 1 <= d <= yl[mth - 1]
            yield {"op": "ctor", "mode": mode, "what": "cal",
                   "kw": {"truncated": True,
                          "truncated_property": "year_of_century",
                          "year": yy, "month_of_year": mth,
                          "day_of_month": d}, "legal": legal, "near": True,
                   "no_fields": True}
            for fmt in ("%02d%02d%02d", "%02d-%02d-%02d",
                        "%02d%02d%02dT0630", "%02d-%02d-%02dT06:30Z"):
                yield {"op": "text", "mode": mode, "what": "cal",
                       "text": fmt % (yy, mth, d), "legal": legal,
                       "fields": None, "cfg": 1}
        for doy in (0, 1, 360, 361, 365, 366, 367):
            legal = 1 <= doy <= sum(yl)
            yield {"op": "ctor", "mode": mode, "what": "ord",
                   "kw": {"truncated": True,
                          "truncated_property": "year_of_century",
                          "year": yy, "day_of_year": doy}, "legal": legal,
                   "near": True, "no_fields": True}
            for fmt in ("%02d%03d", "%02d-%03d"):
                yield {"op": "text", "mode": mode, "what": "ord",
                       "text": fmt % (yy, doy), "legal": legal,
                       "fields": None, "cfg": 1}


def assumed_zone_cases():
    """zone-less texts read by a parser whose assumed zone is in / out of
    range or of conflicting sign"""
    for h in (-100, -99, -12, -5, -1, 0, 1, 5, 14, 99, 100):
        for m in (-60, -59, -30, -1, 0, 1, 30, 59, 60):
            legal = legal_zone(h, m)
            for text in ("2000-01-01T06:30", "20000101T0630", "2000-001T06",
                         "2000-W01-1"):
                yield {"op": "text", "mode": "gregorian", "what": "zone",
                       "text": text, "legal": legal, "fields": None,
                       "assumed": [h, m], "zone": [h, m]}


def time_zone_cases():
    for h in range(-1, 26):
        for m in (-1, 0, 1, 59, 60):
            for s in (-1, 0, 1, 59, 60):
                legal = legal_time(h, m, s)
                yield {"op": "ctor", "mode": "gregorian", "what": "time",
                       "kw": {"year": 2000, "hour_of_day": h,
                              "minute_of_hour": m, "second_of_minute": s},
                       "legal": legal, "near": True}
                if h >= 0 and m >= 0 and s >= 0:
                    for ext in (True, False):
                        sep = ":" if ext else ""
                        yield {"op": "text", "mode": "gregorian",
                               "what": "time",
                               "text": ("2000-01-01T" if ext else
                                        "20000101T") + "%02d%s%02d%s%02d" % (
                                            h, sep, m, sep, s),
                               "legal": legal,
                               "fields": {"hour_of_day": h,
                                          "minute_of_hour": m,
                                          "second_of_minute": s}}
    # decimal fractions: legal below hour 24, never at 24:00
    for h in (0, 23, 24):
        for frac in (0.0, 0.5, 0.000001, 0.999999):
            for unit in ("hour", "minute", "second"):
                kw = {"year": 2000, "hour_of_day": h}
                if unit == "hour":
                    kw["hour_of_day_decimal"] = frac
                elif unit == "minute":
                    kw.update(minute_of_hour=0, minute_of_hour_decimal=frac)
                else:
                    kw.update(minute_of_hour=0, second_of_minute=0,
                              second_of_minute_decimal=frac)
                legal = h < 24 or frac == 0.0
                yield {"op": "ctor", "mode": "gregorian", "what": "time",
                       "kw": kw, "legal": legal, "near": True,
                       "no_fields": True}
                digits = ("%.6f" % frac)[2:].rstrip("0") or "0"
                for ext in (True, False):
                    sep = ":" if ext else ""
                    t = "%02d" % h
                    if unit != "hour":
                        t += sep + "00"
                    if unit == "second":
                        t += sep + "00"
                    yield {"op": "text", "mode": "gregorian",
                           "what": "time",
                           "text": ("2000-01-01T" if ext else "20000101T") +
                           t + "," + digits + "Z", "legal": legal,
                           "fields": None}
    for h in (-100, -99, -1, 0, 1, 99, 100):
        for m in range(-61, 62):
            legal = legal_zone(h, m)
            yield {"op": "tz", "mode": "gregorian", "what": "zone",
                   "h": h, "m": m, "legal": legal}
            yield {"op": "ctor", "mode": "gregorian", "what": "zone",
                   "kw": {"year": 2000, "time_zone_hour": h,
                          "time_zone_minute": m}, "legal": legal,
                   "near": True}
    for h in (0, 1, 12, 99):
        for m in range(0, 62):
            for sign in "+-":
                for ext in (True, False):
                    legal = m <= 59
                    yield {"op": "text", "mode": "gregorian", "what": "zone",
                           "text": ("2000-01-01T00:00" if ext else
                                    "20000101T0000") + "%s%02d%s%02d" % (
                                        sign, h, ":" if ext else "", m),
                           "legal": legal, "fields": None,
                           "zone": [(-h if sign == "-" else h),
                                    (-m if sign == "-" else m)]}


# --------------------------------------------------------------------------
# fuzz

TP_SEEDS = [
    "-9901T1200+01:00", "T1200+01:00", "--0412T1015-0:30", "T06+1",
    "85W155T10+", "---12T0600Z",
    "2000-01-01", "20000101", "2000-001", "2000001", "2000-W01-1", "2000W011",
    "2000-01-01T00:00:00Z", "20000101T000000Z", "2000-12-31T24:00",
    "1985-04-12T10:15:30+04:00", "19850412T101530-0330", "1985-102T10,5",
    "1985W155T1015.5+04", "+0019850412T10Z", "-000400-02-29T12:30:30,5",
    "2000-01", "2000", "20", "2000-W52", "+002000-366T23:59:59.999999-00:30",
    "-8504", "--0412", "---12", "850412", "85102", "-102", "85W155", "-W155",
    "-W-5", "T-30", "T--15", "T-3015,5", "T06", "T0630Z", "-5W011T1200+01",
    "--04-12T10:15", "85-W15-5T10", "0000-01-01T00Z", "9999-12-31T23:59:59Z",
]
DUR_SEEDS = [
    "P1Y", "P1M", "P1D", "PT1H", "PT1M", "PT1S", "P1W", "P1Y2M3DT4H5M6S",
    "PT1,5H", "PT0.5S", "-P1D", "-PT1H30M", "P0Y", "P52W", "P1DT12H",
    "P0001-02-03T04:05:06", "P00010203T040506", "P0001-002T00", "PT36H",
    "P1Y6M", "PT1H1,5M", "P3M2DT5,5S", "-P1Y2M3DT4H5M6,7S", "P10000D",
    "P0004-03", "P+000004-03", "P0000-11", "P0004", "P0004-123",
    "P2000-01-01T00:00:00", "P0000-00-00T00:30,5", "P00000000T0030.5",
    "P0000-000T01:00,25", "P0001-01-01T10,5", "P0000-00-01T00:00:00,5",
]
REC_SEEDS = [
    "R7/8504/PT1,e885H",    # regression: used to raise OverflowError
    "R2/2000-01-01T00Z/P0000-00-00T00:30,5", "R/2000-01-01T00Z/P0001-02",
    "R/2000-01-01T00Z/P1D", "R5/2000-01-01T00Z/P1D", "R/P1D/2000-01-01T00Z",
    "R3/P1M/2000-03-31T00Z", "R5/2000/2001", "R/2000-01-01T00Z/2000-01-02T00Z",
    "R1/2000-01-01T00Z/P1Y", "R2/P1W/20000101T00Z", "R/20000101T00Z/PT6H",
    "R10/2000-W01-1T00+05:30/PT90M", "R/2000-001T00Z/P1Y2M3DT4H",
    "R4/1985-04-12T10:15:30+04/PT0,5S", "R/P0Y/2000", "R2/2000-02-29/P4Y",
]
ALPHABET = ("0123456789" * 3 + "-+:,.TZWPRYMDHS/" * 3 +
            " \t\n%eE_xX١٢٣１２²−"
            "\u0000aZz/\\")


def cap_digits(s, n):
    return re.sub(r"\d{%d,}" % (n + 1), lambda m: m.group(0)[:n], s)


def mutate(rng, seeds, maxdigits):
    s = rng.choice(seeds)
    for _ in range(rng.choice((1, 1, 1, 2, 2, 3, 5))):
        v = rng.random()
        if not s:
            s = rng.choice(seeds)
        pos = rng.randrange(len(s) + 1)
        if v < 0.3 and s:
            pos = min(pos, len(s) - 1)
            s = s[:pos] + rng.choice(ALPHABET) + s[pos + 1:]
        elif v < 0.5:
            s = s[:pos] + rng.choice(ALPHABET) + s[pos:]
        elif v < 0.65 and s:
            pos = min(pos, len(s) - 1)
            s = s[:pos] + s[pos + 1:]
        elif v < 0.75 and s:
            a = rng.randrange(len(s))
            b = min(len(s), a + rng.randint(1, 4))
            s = s[:b] + s[a:b] + s[b:]
        elif v < 0.9:
            other = rng.choice(seeds)
            cut = rng.randrange(len(other) + 1)
            s = s[:pos] + other[cut:]
        else:
            s = s[:pos] + str(rng.randrange(100)) + s[pos:]
    return cap_digits(s, maxdigits)


def estimate_work(text):
    """reference reading of a recurrence-like string: rough number of day
    steps the arithmetic legitimately needs (reps x span in days)"""
    parts = text.split("/")
    reps = 1
    m = re.match(r"^R(\d+)", parts[0]) if parts else None
    if m:
        reps = int(m.group(1))
    days = 0
    years = []
    for part in parts[1:]:
        if part.startswith("P") or part.startswith("-P"):
            d = 0
            for num, unit in re.findall(
                    r"(\d[\d_]*(?:[,.][\d_]*)?(?:[eE][+-]?\d+)?)"
                    r"[^YMWDHS]*([YMWDHS])", part):
                try:
                    val = float(num.replace(",", "."))
                except ValueError:
                    val = 10.0 ** len(num)
                d += val * {"Y": 366, "M": 31, "W": 7, "D": 1}.get(unit, 1)
            days = max(days, min(d, 1e30))
        else:
            m2 = re.search(r"\d{2,}", part)
            if m2:
                run = m2.group(0)[:7]
                mag = int(run)
                signed = part[:1] in "+-"
                if len(run) <= 2 or signed:
                    mag *= 100      # CC / +-XCC forms count centuries
                years.append((mag, signed))
    if len(years) >= 2:
        (y1, s1), (y2, s2) = years[0], years[1]
        if s1 or s2:
            span = y1 + y2          # worst case: opposite signs
        else:
            span = abs(y1 - y2)
        days = max(days, span * 366 + 366)
    return reps * max(days, 1)


def run_case(ctx, repo, case):
    mode = case["mode"]
    repo.set_mode(mode, case)
    P = repo.parsers
    try:
        op = case["op"]
        if op in ("ctor", "tz"):
            cls = "grid/%s/%s/ctor" % (mode, case["what"]) \
                if case["what"] in ("cal", "ord", "week") \
                else "grid/%s/ctor" % case["what"]
            ctx.expect = {"via": "ctor" if op == "ctor" else "tz",
                          "legal": case["legal"], "mode": mode,
                          "what": case.get("kw") or (case["h"], case["m"]),
                          "cls": cls,
                          "fields": ({k: v for k, v in case["kw"].items()
                                      if not k.startswith("time_zone")}
                                     if op == "ctor" and
                                     not case.get("no_fields") else None)}
            try:
                if op == "ctor":
                    repo.TimePoint(**case["kw"])
                else:
                    repo.TimeZone(hours=case["h"], minutes=case["m"])
            except Exception:
                pass
            if case.get("near"):
                ctx.nontrivial((mode, op, sorted((case.get("kw") or {
                    "h": case.get("h"), "m": case.get("m")}).items())))
        elif op == "text":
            cls = "grid/%s/%s/text" % (mode, case["what"]) \
                if case["what"] in ("cal", "ord", "week") \
                else "grid/%s/text" % case["what"]
            ctx.expect = {"via": "TimePointParser", "legal": case["legal"],
                          "mode": mode, "what": case["text"], "cls": cls,
                          "fields": case.get("fields")}
            parser = ctx.parsers[case.get("cfg", 0)]
            try:
                if case.get("assumed") is not None:
                    # the zone comes from the parser's configuration
                    parser = P.TimePointParser(
                        assumed_time_zone=tuple(case["assumed"]))
                res, steps = ctx.budget.run(
                    300000 + 2000 * len(case["text"]), parser.parse,
                    case["text"])
                if case.get("zone") and case["legal"]:
                    tz = res._time_zone
                    if [tz._hours, tz._minutes] != case["zone"]:
                        ctx.violation("accepted-wrong-fields", "%r parsed "
                                      "with zone %r" % (case["text"],
                                                        (tz._hours,
                                                         tz._minutes)))
            except core.BudgetExceeded:
                ctx.violation("budget", "parse(%r) exceeded its step budget"
                              % case["text"], text=case["text"])
            except Exception:
                pass
            ctx.nontrivial((mode, "text", case["text"]))
        elif op == "operator":
            ctx.ev("operator.grid")
            oper = repo.datetimeoper.DateTimeOperator(
                parse_format=case["fmt"])
            try:
                oper.date_parse(case["text"])
                ok = True
            except ValueError:
                ok = False
            except Exception as exc:
                ctx.violation("fuzz.exception-type", "date_parse(%r) raised "
                              "%s: %s" % (case["text"], type(exc).__name__,
                                          exc), text=case["text"])
                return
            if ok and not case["legal"]:
                ctx.violation("admitted-impossible", "DateTimeOperator("
                              "parse_format=%r).date_parse(%r) admitted an "
                              "impossible date-time" % (case["fmt"],
                                                        case["text"]),
                              text=case["text"])
            elif not ok and case["legal"]:
                ctx.violation("refused-valid", "date_parse(%r) refused a "
                              "valid date-time" % (case["text"],),
                              text=case["text"])
            else:
                ctx.cls("operator/%s" % ("legal" if ok else "refused"))
        elif op == "strptime":
            # strptime is an entry point too (with and without its
            # dump_format keyword)
            ctx.ev("strptime.grid")
            parser = ctx.parsers[case.get("cfg", 0)]
            kw = {"dump_format": case["dump_format"]} \
                if case.get("dump_format") else {}
            try:
                parser.strptime(case["text"], case["fmt"], **kw)
                ok = True
            except ValueError:
                ok = False
            except Exception as exc:
                ctx.violation("fuzz.exception-type", "strptime(%r, %r) "
                              "raised %s: %s" % (case["text"], case["fmt"],
                                                 type(exc).__name__, exc),
                              text=case["text"])
                return
            if ok and not case["legal"]:
                ctx.violation("admitted-impossible", "strptime(%r, %r%s) "
                              "admitted an impossible date-time (mode %s)" % (
                                  case["text"], case["fmt"],
                                  ", dump_format=%r" % case["dump_format"]
                                  if kw else "", mode), text=case["text"])
            elif not ok and case["legal"]:
                ctx.violation("refused-valid", "strptime(%r, %r) refused a "
                              "valid date-time (mode %s)" % (
                                  case["text"], case["fmt"], mode),
                              text=case["text"])
            else:
                ctx.cls("strptime/%s%s" % (
                    "legal" if ok else "refused",
                    "/dump_format" if kw else ""))
            ctx.nontrivial((mode, "strptime", case["text"], bool(kw)))
        elif op == "fuzz":
            name = case["parser"]
            text = case["text"]
            ctx.expect = {"via": name, "fuzz": True}
            if name == "TimePointParser":
                fn = ctx.parsers[case["cfg"]].parse
            elif name == "DurationParser":
                fn = ctx.dparser.parse
            else:
                fn = ctx.rparsers[case["cfg"] % len(ctx.rparsers)].parse
            limit = 300000 + 2000 * len(text)
            try:
                ctx.budget.run(limit, fn, text)
            except core.BudgetExceeded:
                work = estimate_work(text) if name == \
                    "TimeRecurrenceParser" else 0
                if work * 3 > limit // 4:
                    ctx.ev("fuzz.skipped-large")
                else:
                    ctx.violation("budget", "%s.parse(%r) did not finish "
                                  "within %d logical steps" % (
                                      name, text, limit), text=text,
                                  parser=name)
            except Exception:
                pass
            if text not in case.get("seeds_set", ()):
                ctx.nontrivial((name, case["cfg"], text))
    finally:
        ctx.expect = None
        repo.set_mode("gregorian")


def long_digit_cases(rng, n):
    """texts with long digit runs where no date arithmetic can follow (the
    cost of these is inside the regular-expression engine, which line events
    cannot see)"""
    out = []
    units = ["H", "M", "S", "", "X", "Y", "D", "W", ",5H", "HM", "H1"]
    for k in range(n):
        digits = "".join(rng.choice("0123456789")
                         for _ in range(rng.choice((22, 28, 34, 40, 60))))
        v = k % 8
        if v == 7:
            # a decimal fraction far longer than a float's precision or
            # range: no arithmetic follows, the value is simply 0.ddd...
            frac = "".join(rng.choice("0123456789")
                           for _ in range(rng.choice((40, 320, 400, 1000))))
            head = rng.choice(("2000-01-01T00:00:00", "20000101T0000",
                               "2000-001T06", "2000-W01-1T23:59:59"))
            tail = rng.choice(("", "Z", "+01:00" if "-" in head[:5] and
                               ":" in head else "+0100"))
            kind = k % 3
            if kind == 0:
                text = head + rng.choice(",.") + frac + tail
                parser = "TimePointParser"
            elif kind == 1:
                text = "R2/" + head + "," + frac + "Z/PT1H"
                parser = "TimeRecurrenceParser"
            else:
                text = "P0001-01-01T00:00:00," + frac
                parser = "DurationParser"
        elif v == 6:
            # a repetition count beyond the range of a float times an
            # interval with a decimal component (the interval arithmetic
            # fails at once; counts below that, or with whole-number
            # intervals, are arithmetic proportional to their size and are
            # not generated)
            huge = "".join(rng.choice("123456789")
                           for _ in range(rng.choice((320, 400, 1000))))
            text = "R" + huge + rng.choice((
                "/2000-01-01T00:00:00Z/P1DT0,5S", "/PT1,5H/20000101T00Z",
                "/2000-W01-1T06Z/P1YT0,25M"))
            parser = "TimeRecurrenceParser"
        elif v == 0:
            text = "PT" + digits + rng.choice(units)
            parser = "DurationParser"
        elif v == 1:
            text = "P" + digits + rng.choice(units) + rng.choice(("", "T"))
            parser = "DurationParser"
        elif v == 2:
            text = "-PT1H" + digits + rng.choice(units)
            parser = "DurationParser"
        elif v == 3:
            text = rng.choice(("2000-01-01T", "20000101T", "+", "T", "",
                               "2000-W")) + digits + rng.choice(("", "Z",
                                                                  "+01"))
            parser = "TimePointParser"
        elif v == 4:
            # malformed interval inside a recurrence: no arithmetic follows
            text = "R3/2000-01-01T00:00:00Z/PT" + digits + rng.choice(
                ("", "X", "HX"))
            parser = "TimeRecurrenceParser"
        else:
            text = "R/" + digits + "T/P1D"
            parser = "TimeRecurrenceParser"
        out.append({"parser": parser, "cfg": k % 2, "text": text})
    return out


def long_digit_probe(ctx, rng):
    import json
    import subprocess
    import sys
    cases = long_digit_cases(rng, 120 if ctx.tier == "quick" else 600)
    limit = 20
    env = dict(__import__("os").environ)
    env["PYTHONDONTWRITEBYTECODE"] = "1"
    try:
        proc = subprocess.run(
            [sys.executable, "-m", "rtv.hangprobe", str(limit)],
            input=json.dumps(cases).encode(), cwd=core.VERIF, env=env,
            stdout=subprocess.PIPE, stderr=subprocess.PIPE, timeout=600)
    except subprocess.TimeoutExpired:
        ctx.inconclusive.append("long-digit child hit the wall-clock "
                                "watchdog")
        return
    lines = proc.stdout.decode().splitlines()
    started = [int(x.split()[1]) for x in lines if x.startswith("START")]
    done = {int(x.split()[1]): x.split()[2] for x in lines
            if x.startswith("DONE")}
    ctx.ev("parse.long_digits", len(done))
    for i, outcome in done.items():
        if outcome.startswith("other:"):
            ctx.case = dict(cases[i], op="long-digits")
            ctx.violation("fuzz.exception-type", "%s.parse(%r) raised %s" % (
                cases[i]["parser"], cases[i]["text"], outcome[6:]),
                text=cases[i]["text"], parser=cases[i]["parser"],
                exc=outcome[6:])
    if proc.returncode != 0:
        last = started[-1] if started else None
        if last is not None and last not in done:
            ctx.case = dict(cases[last], op="long-digits")
            ctx.violation(
                "hang", "%s.parse(%r) (a %d-character text) used more than "
                "%d CPU-seconds without returning (child killed by the CPU "
                "limit, exit %s); all %d other texts of the batch take "
                "milliseconds" % (cases[last]["parser"], cases[last]["text"],
                                  len(cases[last]["text"]), limit,
                                  proc.returncode, len(done)),
                text=cases[last]["text"], parser=cases[last]["parser"])
        else:
            ctx.inconclusive.append("long-digit child failed: %s" % (
                proc.stderr.decode()[-300:],))


def workload(ctx, repo):
    rng = ctx.rng
    i = 0
    for mode in R.MODES:
        years = YEAR_TYPES[mode]
        if ctx.tier == "quick":
            years = years[:2] + ([years[2 + ctx.seed % (len(years) - 2)]]
                                 if len(years) > 2 else [])
        for case in grid_cases(ctx, mode, years):
            i += 1
            if not ctx.mine(i):
                continue
            ctx.case = case
            if i % 4001 == 0:
                ctx.sample(case)
            run_case(ctx, repo, case)
    if ctx.worker == 0:
        for case in special_date_time_cases():
            ctx.case = case
            run_case(ctx, repo, case)
        for case in operator_cases():
            ctx.case = case
            run_case(ctx, repo, case)
    for mode in R.MODES:
        for case in strptime_cases(mode, (2000, 2001, 1900, 2004, 0, 9999)):
            i += 1
            if not ctx.mine(i):
                continue
            ctx.case = case
            run_case(ctx, repo, case)
    for mode in R.MODES:
        for case in edge_cases(mode, EDGE_YEARS):
            i += 1
            if not ctx.mine(i):
                continue
            ctx.case = case
            ctx.ev("cases.edge")
            run_case(ctx, repo, case)
    for mode in R.MODES:
        for case in truncated_cases(mode):
            i += 1
            if not ctx.mine(i):
                continue
            ctx.case = case
            run_case(ctx, repo, case)
    for case in itertools.chain(time_zone_cases(), assumed_zone_cases()):
        i += 1
        if not ctx.mine(i):
            continue
        ctx.case = case
        if case.get("assumed") is not None:
            ctx.ev("cases.assumed-zone")
        run_case(ctx, repo, case)
    n = 6000 if ctx.tier == "quick" else 25000
    plan = (("TimePointParser", TP_SEEDS, 7, len(ctx.parsers)),
            ("DurationParser", DUR_SEEDS, 7, 1),
            ("TimeRecurrenceParser", REC_SEEDS, 3, len(ctx.rparsers)))
    for name, seeds, maxd, ncfg in plan:
        sset = set(seeds)
        for k in range(n):
            text = mutate(rng, seeds, maxd) if k >= len(seeds) else seeds[k]
            if name == "TimeRecurrenceParser" and k % 5 < 3 and \
                    k >= len(seeds):
                # structured: valid or lightly mutated components
                def part(pool):
                    return mutate(rng, pool, maxd) if rng.random() < 0.3 \
                        else cap_digits(rng.choice(pool), 4)
                reps = rng.choice(("", "", "1", "2", "3", "7", "0", "12"))
                a = part(TP_SEEDS if rng.random() < 0.7 else DUR_SEEDS)
                b = part(DUR_SEEDS if rng.random() < 0.6 else TP_SEEDS)
                text = "R%s/%s/%s" % (reps, a, b)
            case = {"op": "fuzz", "mode": "gregorian", "parser": name,
                    "text": text, "cfg": k % ncfg}
            ctx.case = case
            if k % 1999 == 50:
                ctx.sample(case)
            case_run = dict(case)
            case_run["seeds_set"] = sset
            run_case(ctx, repo, case_run)
    if ctx.worker == 0:
        long_digit_probe(ctx, rng)
    ctx.extra["budget_max_steps_seen"] = ctx.budget.max_seen
    ctx.extra["budgeted_calls"] = ctx.budget.total_calls
