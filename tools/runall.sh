#!/bin/sh
# tools/runall.sh [quick|thorough] [seed] -> summary lines for all 20 checks
cd "$(dirname "$0")/.." || exit 2
tier=${1:-quick}; seed=${2:-0}
for i in 01 02 03 04 05 06 07 08 09 10 11 12 13 14 15 16 17 18 19 20; do
  VERIF_SEED=$seed ./vcheck C$i $tier 2>&1 | grep -E "^(C[0-9]+ |VIOLATION|  kind|INCONCLUSIVE|NOTE|Traceback|Fatal|Timeout)" | cut -c1-400
done
