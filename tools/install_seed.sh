#!/bin/sh
# tools/install_seed.sh <id> <base>  -- copy confirmed changes of <base>/out/<id> into seeded/<id>-<next free number>
id=$1; base=$2
for k in 1 2; do
  [ -f $base/out/$id/change$k.diff ] || continue
  j=15; while [ -d seeded/$id-$j ] || [ -d selftest/dropped/$id-$j ]; do j=$((j+1)); done
  d=seeded/$id-$j; mkdir $d
  cp $base/out/$id/change$k.diff $d/patch.diff; cp $base/out/$id/demo$k.py $d/demo.py; cp $base/out/$id/notes$k.md $d/notes.md
  echo $id-$j
done
git -C /repo worktree remove --force $base/$id 2>/dev/null
