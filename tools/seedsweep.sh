#!/bin/sh
# tools/seedsweep.sh "<ids>" "<seeds>" [tier]  -> one line per run
cd "$(dirname "$0")/.." || exit 2
for id in $1; do for s in $2; do
  VERIF_SEED=$s ./vcheck $id ${3:-quick} 2>&1 | grep -E "^(C[0-9]+ |VIOLATION|INCONCLUSIVE)" | cut -c1-250
done; done
