#!/usr/bin/env python3
"""tools/funccov.py [Cxx ...] -- which functions of metomi/isodatetime do the
quick workloads enter?  Runs each check's single-process quick workload under
sys.monitoring PY_START events and prints, per repository module, the
functions that no check entered (a map of blind spots for the next round of
strengthening; not a verdict about anything)."""
import json
import os
import subprocess
import sys

HERE = os.path.dirname(os.path.dirname(os.path.abspath(__file__)))
CHILD = r'''
import sys, os, json
sys.path.insert(0, %(here)r)
os.environ.setdefault("PYTHONHASHSEED", "0")
from rtv import core
seen = set()
mon = sys.monitoring
TOOL = 3
mon.use_tool_id(TOOL, "funccov")
root = os.path.join(core.REPO, "metomi", "isodatetime")
def start(code, off):
    if code.co_filename.startswith(root):
        seen.add((os.path.basename(code.co_filename), code.co_qualname))
    return mon.DISABLE
mon.register_callback(TOOL, mon.events.PY_START, start)
mon.set_events(TOOL, mon.events.PY_START)
ctx = core.run_worker(%(pid)r, "quick", 0, 0, 1)
mon.set_events(TOOL, 0)
print("FUNCCOV " + json.dumps(sorted(seen)))
'''


def defined():
    import ast
    root = os.path.join(os.environ.get("VERIF_REPO", "/repo"), "metomi",
                        "isodatetime")
    out = set()
    for name in sorted(os.listdir(root)):
        if not name.endswith(".py"):
            continue
        tree = ast.parse(open(os.path.join(root, name)).read())

        def walk(node, prefix):
            for ch in ast.iter_child_nodes(node):
                if isinstance(ch, (ast.FunctionDef, ast.AsyncFunctionDef)):
                    out.add((name, prefix + ch.name))
                    walk(ch, prefix + ch.name + ".<locals>.")
                elif isinstance(ch, ast.ClassDef):
                    walk(ch, prefix + ch.name + ".")
        walk(tree, "")
    return out


def main():
    ids = sys.argv[1:] or ["C%02d" % i for i in range(1, 21)]
    seen = set()
    procs = []
    for pid in ids:
        env = dict(os.environ, PYTHONHASHSEED="0", TZ="UTC",
                   PYTHONDONTWRITEBYTECODE="1")
        procs.append((pid, subprocess.Popen(
            ["/venv/bin/python", "-c", CHILD % {"here": HERE, "pid": pid}],
            stdout=subprocess.PIPE, stderr=subprocess.DEVNULL, env=env,
            cwd=HERE)))
    for pid, p in procs:
        out = p.communicate()[0].decode()
        for line in out.splitlines():
            if line.startswith("FUNCCOV "):
                got = {tuple(x) for x in json.loads(line[8:])}
                print("%s entered %d functions" % (pid, len(got)))
                seen |= got
    missing = sorted(defined() - seen)
    print("defined %d, entered by some check %d, never entered %d:" % (
        len(defined()), len(defined() & seen), len(missing)))
    for mod, fn in missing:
        print("  %s: %s" % (mod, fn))


if __name__ == "__main__":
    main()
