#!/usr/bin/env python3
"""Rewrite the per-check coverage table in DESIGN.md (between
<!-- coverage:begin --> and <!-- coverage:end -->) from evidence/*.json."""
import json
import os

HERE = os.path.dirname(os.path.dirname(os.path.abspath(__file__)))


def main():
    rows = ["| check | tier | wall s | oracle evaluations | distinct "
            "non-trivial cases | classes observed/targeted | deciding "
            "monitors (evaluations) |", "|---|---|---|---|---|---|---|"]
    for i in range(1, 21):
        pid = "C%02d" % i
        path = os.path.join(HERE, "evidence", pid + ".json")
        if not os.path.exists(path):
            continue
        e = json.load(open(path))
        c = e["coverage"]
        mons = ", ".join("%s %d" % (k, v) for k, v in sorted(
            c.get("monitor_counts", {}).items(), key=lambda x: -x[1])[:4])
        seen = sum(1 for v in c.get("classes_observed", {}).values() if v)
        rows.append("| %s | %s | %.0f | %d | %d | %d/%d | %s |" % (
            pid, e["tier"], e["wall_s"], c["evaluations"],
            c["distinct_nontrivial"], seen, c.get("classes_targeted", 0),
            mons))
    p = os.path.join(HERE, "DESIGN.md")
    s = open(p).read()
    b, e_ = "<!-- coverage:begin -->", "<!-- coverage:end -->"
    i, j = s.index(b) + len(b), s.index(e_)
    s = s[:i] + "\n" + "\n".join(rows) + "\n" + s[j:]
    open(p, "w").write(s)
    print("\n".join(rows[:4]))


if __name__ == "__main__":
    main()
