#!/bin/sh
# tools/tryseed.sh <worktree> <patch> "<check ids>" [tier]
# Applies <patch> in <worktree> (a scratch git worktree of /repo), runs the
# named checks against it (VERIF_REPO), prints one line per check and reverts.
cd "$(dirname "$0")/.." || exit 2
wt=$1; patch=$2; ids=$3; tier=${4:-quick}
git -C "$wt" checkout -q -- . || exit 2
git -C "$wt" apply "$patch" || { echo "PATCH DOES NOT APPLY: $patch"; exit 2; }
out=$(mktemp -d /verif/.work/seed.XXXXXX)
for id in $ids; do
  VERIF_REPO="$wt" VERIF_OUT="$out" VERIF_WATCHDOG=600 ./vcheck $id $tier > "$out/$id.log" 2>&1
  code=$?
  kinds=$(grep -E "^  violation kind" "$out/$id.log" | sed 's/  violation kind //' | tr '\n' ';' | cut -c1-300)
  echo "$id exit=$code $(tail -1 "$out/$id.log" | cut -c1-120) | $kinds"
done
git -C "$wt" checkout -q -- .
find "$wt" -name __pycache__ -type d -prune -exec rm -rf {} + 2>/dev/null
rm -rf "$out"
