#!/usr/bin/env python3
"""Rewrite the seeded-change table in DESIGN.md (between the markers
<!-- seedtable:begin --> and <!-- seedtable:end -->) from seeded/*/meta.json."""
import json
import os

HERE = os.path.dirname(os.path.dirname(os.path.abspath(__file__)))


def main():
    rows = ["| seed | change | caught by (quick) | main violation kinds |",
            "|---|---|---|---|"]
    n = caught = 0
    for d in sorted(os.listdir(os.path.join(HERE, "seeded"))):
        mp = os.path.join(HERE, "seeded", d, "meta.json")
        if not os.path.exists(mp):
            continue
        m = json.load(open(mp))
        title = open(os.path.join(HERE, "seeded", d, "notes.md")).read() \
            .strip().splitlines()[0].lstrip("# ").strip()
        kinds = m["violation_kinds"].get(m["property"], {})
        ks = ", ".join("%s (%d)" % (k, v) for k, v in
                       sorted(kinds.items(), key=lambda x: -x[1])[:3])
        n += 1
        caught += m["property"] in m["caught_by"]
        tier = os.path.join(HERE, "seeded", d, "tier")
        by = ", ".join(m["caught_by"]) or "-"
        if os.path.exists(tier):
            by += " (%s tier)" % open(tier).read().strip()
        rows.append("| %s | %s | %s | %s |" % (
            d, title.replace("|", "/")[:120], by, ks))
    p = os.path.join(HERE, "DESIGN.md")
    s = open(p).read()
    b, e = "<!-- seedtable:begin -->", "<!-- seedtable:end -->"
    i, j = s.index(b) + len(b), s.index(e)
    s = s[:i] + "\n%d of %d seeded changes are caught by their property's own " \
        "quick check.\n\n" % (caught, n) + "\n".join(rows) + "\n" + s[j:]
    open(p, "w").write(s)
    print("%d/%d" % (caught, n))


if __name__ == "__main__":
    main()
