#!/usr/bin/env python3
"""Regenerate MANIFEST.json from the table below and the check modules that
exist in rtv/checks/.  Run: python3 tools/mkmanifest.py  (validates with
python3-vt's jsonschema when available)."""
import json
import os
import subprocess
import sys

HERE = os.path.dirname(os.path.dirname(os.path.abspath(__file__)))

CHECKS = {
    "C01": ("postcondition monitors on TimePoint.__add__/__sub__/_tick_over "
            "vs closed-form reference instants",
            "Every p+d / p-d / d+p any workload causes is checked against a "
            "closed-form reference instant, legal field ranges, kept "
            "representation and offset; sweep over every month/year/leap-"
            "day/century/week-year boundary class in both directions x 3 "
            "representations x 4 modes plus seeded random cases. Held on the "
            "executions observed, nothing more.", "6 C01"),
    "C02": ("online reference-order monitor on the rich comparisons, hash "
            "and a-b; offline order-graph checker over the recorded "
            "comparison log",
            "All comparison/hash/subtraction events of clustered, re-spelled "
            "points are decided online against reference instants and "
            "offline (no reference) for symmetry, complementarity, union "
            "laws, trichotomy, transitivity/cycles and hash agreement.",
            "6 C02"),
    "C03": ("reference-model postconditions on the six conversion functions, "
            "length queries, week-start helpers, iter_months_days and "
            "TimePoint.to_*_date; exhaustive day sweep",
            "Every call of a conversion/length helper (direct or internal) is "
            "compared with the closed-form reference for the active mode; "
            "thorough tier enumerates every day of a full 400-year Gregorian "
            "cycle and a full weekday cycle of each fixed calendar spelling.",
            "6 C03"),
    "C04": ("postcondition monitor on TimePoint - TimePoint vs reference "
            "instants; identities evaluated on the real operators under the "
            "monitors",
            "Every point difference is checked for exact length, component "
            "shape and sign against reference instants; (a-b)==-(b-a), "
            "b+(a-b)==a, (p+d)-p==d are driven over near and far pairs.",
            "6 C04"),
    "C05": ("postcondition monitors on add_months and nominal __add__ vs a "
            "reference stepper with clamping",
            "Every month/year addition is compared with single clamped month "
            "steps, per-representation year clamps and exact->months->years "
            "ordering from the reference; sweep over all month ends, leap "
            "days, day 366, W53.", "6 C05"),
    "C06": ("postcondition monitors on to_time_zone/to_utc/"
            "to_local_time_zone and on zone-literal dumps (reference "
            "decoder); ==/hash/zero-difference asked of the real operators",
            "Every re-zoning observed keeps the reference instant, carries "
            "the requested offset, representation and legal fields; thorough "
            "tier enumerates all 11999 offsets over boundary points.",
            "6 C06"),
    "C07": ("monitor on TimePointParser.parse comparing the result with the "
            "fields a reference ISO 8601 encoder spelled",
            "The full cross product of documented forms (and truncated "
            "forms, basic-only parsers, basic/extended mixtures) is spelled "
            "from chosen field values by an encoder written from the "
            "standard; the parser must return exactly those fields and "
            "re-dump the input.", "6 C07"),
    "C08": ("trace checker over recorded dump->parse chains with an "
            "independent reference decoder of the dumped text",
            "Random valid points are written with str() and qualifying "
            "custom formats and read back; fields, representation, offset, "
            "== and str-fixpoint are decided per chain.", "6 C08"),
    "C09": ("exception-observing monitors on constructors and the three "
            "parsers; logical step budget via sys.monitoring LINE events",
            "Acceptance decisions on exhaustive small grids around every "
            "legal range (per year type and mode, constructor and text) are "
            "compared with the reference's legality; fuzzed text must yield "
            "a valid object or a ValueError subclass within a step budget.",
            "6 C09"),
}

LEVEL_NOTE = ("Trusted: CPython 3.12 int/Fraction arithmetic, rtv/refmodel.py "
              "(self-validated against datetime 1-9999 and 400-year "
              "periodicity at every start), the probes in rtv/core.py. "
              "Decides only the executions the workloads produce.")


def main():
    props = [json.loads(line) for line in
             open(os.path.join(HERE, "properties.jsonl"))]
    checks = []
    na = []
    for p in props:
        pid = p["id"]
        mod = os.path.join(HERE, "rtv", "checks", pid.lower() + ".py")
        if pid in CHECKS and os.path.exists(mod):
            tech, text, ref = CHECKS[pid]
            checks.append({
                "property_id": pid,
                "quick_cmd": "./vcheck %s quick" % pid,
                "thorough_cmd": "./vcheck %s thorough" % pid,
                "evidence_file": "evidence/%s.json" % pid,
                "replay_cmd_template": "./vcheck replay {path}",
                "engine": "rtv",
                "level_claimed": {"category": "exploration", "text": text,
                                  "design_ref": "DESIGN.md section " + ref},
                "level_note": LEVEL_NOTE,
                "technique": "runtime monitoring: " + tech,
            })
        else:
            na.append({"property_id": pid,
                       "reason": "check not built yet (framework under "
                                 "construction); runtime monitoring applies "
                                 "and is planned in DESIGN.md section 6"})
    manifest = {
        "version": 1,
        "setup_cmd": "./setup.sh",
        "hooks": {
            "guard": "METOMI_ISODATETIME_VERIF",
            "enable": "no source hooks: every probe is attached from "
                      "outside by re-binding methods/module attributes of "
                      "the imported working tree (rtv/core.py Probes); the "
                      "guard variable is set by the harness and read only "
                      "by /verif code",
            "baseline_off_cmd": "cd /repo && /venv/bin/python -m pytest -ra "
                                "-q -p no:cacheprovider --timeout=900 "
                                "--continue-on-collection-errors",
            "source_commits": [],
            "add_only": True,
        },
        "engines": [{
            "name": "rtv", "path": "rtv/",
            "serves_properties": [c["property_id"] for c in checks],
            "kind_free_text": "runtime monitors (postconditions, reference-"
                              "model monitors, write barrier, step budgets) "
                              "attached to the real functions of /repo's "
                              "working tree, driven by sweeps, seeded "
                              "random, hostile and history workloads; "
                              "offline checkers over recorded event logs",
        }],
        "checks": checks,
        "notes": "Exit codes: 0 held, 1 violation (VIOLATION line + replay "
                 "file), 2 inconclusive (deciding monitor not reached / "
                 "class unobserved / watchdog). Known findings: "
                 "known_findings.txt. VERIF_SEED, VERIF_TIER, VERIF_REPO "
                 "honoured.",
        "not_applicable": na,
    }
    out = os.path.join(HERE, "MANIFEST.json")
    with open(out, "w") as fh:
        json.dump(manifest, fh, indent=1)
        fh.write("\n")
    code = ("import json,jsonschema,sys;"
            "jsonschema.validate(json.load(open(sys.argv[1])),"
            "json.load(open('/root/.vp/MANIFEST.schema.json')));"
            "print('MANIFEST valid:',len(json.load(open(sys.argv[1]))"
            "['checks']),'checks')")
    try:
        subprocess.run(["python3-vt", "-c", code, out], check=True)
    except FileNotFoundError:
        print("python3-vt not found; not validated")


if __name__ == "__main__":
    sys.exit(main())
