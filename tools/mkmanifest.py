#!/usr/bin/env python3
"""Regenerate MANIFEST.json from the table below and the check modules that
exist in rtv/checks/.  Run: python3 tools/mkmanifest.py  (validates with
python3-vt's jsonschema when available)."""
import json
import os
import subprocess
import sys

HERE = os.path.dirname(os.path.dirname(os.path.abspath(__file__)))

CHECKS = {
    "C01": ("postcondition monitors on TimePoint.__add__/__sub__/_tick_over "
            "vs closed-form reference instants",
            "Every p+d / p-d / d+p any workload causes is checked against a "
            "closed-form reference instant, legal field ranges, kept "
            "representation and offset; sweep over every month/year/leap-"
            "day/century/week-year boundary class in both directions x 3 "
            "representations x 4 modes plus seeded random cases. Held on the "
            "executions observed, nothing more.", "6 C01"),
    "C02": ("online reference-order monitor on the rich comparisons, hash "
            "and a-b; offline order-graph checker over the recorded "
            "comparison log",
            "All comparison/hash/subtraction events of clustered, re-spelled "
            "points are decided online against reference instants and "
            "offline (no reference) for symmetry, complementarity, union "
            "laws, trichotomy, transitivity/cycles and hash agreement.",
            "6 C02"),
    "C03": ("reference-model postconditions on the six conversion functions, "
            "length queries, week-start helpers, iter_months_days and "
            "TimePoint.to_*_date; exhaustive day sweep",
            "Every call of a conversion/length helper (direct or internal) is "
            "compared with the closed-form reference for the active mode; "
            "thorough tier enumerates every day of a full 400-year Gregorian "
            "cycle and a full weekday cycle of each fixed calendar spelling.",
            "6 C03"),
    "C04": ("postcondition monitor on TimePoint - TimePoint vs reference "
            "instants; identities evaluated on the real operators under the "
            "monitors",
            "Every point difference is checked for exact length, component "
            "shape and sign against reference instants; (a-b)==-(b-a), "
            "b+(a-b)==a, (p+d)-p==d are driven over near and far pairs.",
            "6 C04"),
    "C05": ("postcondition monitors on add_months and nominal __add__ vs a "
            "reference stepper with clamping",
            "Every month/year addition is compared with single clamped month "
            "steps, per-representation year clamps and exact->months->years "
            "ordering from the reference; sweep over all month ends, leap "
            "days, day 366, W53.", "6 C05"),
    "C06": ("postcondition monitors on to_time_zone/to_utc/"
            "to_local_time_zone and on zone-literal dumps (reference "
            "decoder); ==/hash/zero-difference asked of the real operators",
            "Every re-zoning observed keeps the reference instant, carries "
            "the requested offset, representation and legal fields; thorough "
            "tier enumerates all 11999 offsets over boundary points.",
            "6 C06"),
    "C07": ("monitor on TimePointParser.parse comparing the result with the "
            "fields a reference ISO 8601 encoder spelled",
            "The full cross product of documented forms (and truncated "
            "forms, basic-only parsers, basic/extended mixtures) is spelled "
            "from chosen field values by an encoder written from the "
            "standard; the parser must return exactly those fields and "
            "re-dump the input.", "6 C07"),
    "C08": ("trace checker over recorded dump->parse chains with an "
            "independent reference decoder of the dumped text",
            "Random valid points are written with str() and qualifying "
            "custom formats and read back; fields, representation, offset, "
            "== and str-fixpoint are decided per chain.", "6 C08"),
    "C09": ("exception-observing monitors on constructors and the three "
            "parsers; logical step budget via sys.monitoring LINE events",
            "Acceptance decisions on exhaustive small grids around every "
            "legal range (per year type and mode, constructor and text) are "
            "compared with the reference's legality; fuzzed text must yield "
            "a valid object or a ValueError subclass within a step budget.",
            "6 C09"),
    "C10": ("trace checker over recorded Duration.__str__ / "
            "DurationParser.parse chains with a reference designator "
            "encoder",
            "Single-signed durations are written and read back (components, "
            "==, hash, str fixpoint); designator/weeks strings spelled by a "
            "reference encoder and alternative date-time-like spellings "
            "must decode to the spelled components.", "6 C10"),
    "C11": ("reference-key postconditions on every Duration operator and "
            "length accessor; online oracle and offline consistency checker "
            "over the recorded comparison/hash log",
            "Every Duration operation observed is compared with the key "
            "(years, months, exact seconds); comparisons with the rough-"
            "length rule per calendar mode; the algebraic laws are driven on "
            "the real operators; TimeZone excluded.", "6 C11"),
    "C12": ("generator wrapper on TimeRecurrence.__iter__ (series log) with "
            "an offline series checker using reference point arithmetic",
            "Every iteration observed is checked for anchor, step relation, "
            "order, count and anchor membership; the three notations of one "
            "finite exact series must be equal and iterate identically. One "
            "listed known finding (nominal bounded far anchor).", "6 C12"),
    "C13": ("postcondition monitors on the five recurrence queries against "
            "the series the same object iterates",
            "get_is_valid, __getitem__, get_next, get_prev and "
            "get_first_after are decided on every call against the object's "
            "own enumerated series (closed form beyond the prefix for exact "
            "intervals), with probes on/between/around/after members in "
            "other spellings.", "6 C13"),
    "C14": ("postcondition monitors on TimeRecurrence +/- Duration reading "
            "both series from the real iterators; sibling / twin / text "
            "round-trip workloads on the real ==, hash, str, parser",
            "Shifts keep repetitions and interval and move every point (exact "
            "intervals) or the given anchors (nominal) by d; one-component "
            "siblings are unequal; re-spelled twins equal with equal hashes "
            "and series; parse(str(r)) == r.", "6 C14"),
    "C15": ("mode-history monitor on Calendar.set_mode, reference "
            "postconditions on calendar helpers and their memoised inner "
            "functions, offline comparison of battery results with fresh "
            "single-mode processes",
            "Histories of mode switches over the 7 spellings interleaved "
            "with a few-keys battery (every ordered pair of modes, then the "
            "whole battery; random interleavings; CLI option/env/neither; "
            "real child processes) must equal what a fresh process of the "
            "current mode computes.", "6 C15"),
    "C16": ("write barrier (class-level __setattr__ on the slotted classes) "
            "plus slot/str/hash snapshots over random API programs",
            "Any slot write to an object the workload has already held is a "
            "violation; every pool member's snapshot is re-compared after "
            "steps of seeded programs drawn from the whole public API.",
            "6 C16"),
    "C17": ("postcondition monitors on TimePointDumper.strftime and "
            "TimePointParser.strptime against a reference POSIX renderer",
            "Every strftime observed over the supported directives must "
            "equal the POSIX rendering of the civil date-time; determining "
            "formats are read back to the same instant; partial formats "
            "default to period start / assumed zone; other %-letters are "
            "refused.", "6 C17"),
    "C18": ("reference postconditions on the epoch constructor, "
            "seconds_since_unix_epoch, get_local_time_zone(_format) under "
            "mocked and real (TZ+tzset) system zones",
            "Second counts over +-1e11 and points in all spellings are "
            "converted against reference instants; the local offset split "
            "and its three text forms are checked for every whole-minute "
            "offset within +-24 h in the thorough tier.", "6 C18"),
    "C19": ("monitor on main.main (argv/env/stdout/stderr/exit) with "
            "reference-encoded inputs and expected outputs; probe on the "
            "lenient strptime fallback; child-process sample",
            "Argument vectors in every input notation, offset spelling, "
            "--utc/--calendar/--ref/env, pairs with --as-total, recurrences "
            "with --max must print the reference's expectation; malformed "
            "arguments must exit non-zero with a message and no traceback.",
            "6 C19"),
    "C20": ("postcondition monitor on truncated + full TimePoint addition "
            "against a reference next-match search; logical step budget; "
            "idempotence on the real operator",
            "Every truncated addition observed must return the earliest "
            "matching instant >= p in p's offset, be idempotent and finish "
            "within a step budget derived from the reference distance. One "
            "listed known finding (day designator + minute/second without "
            "hour).", "6 C20"),
}

LEVEL_NOTE = ("Trusted: CPython 3.12 int/Fraction arithmetic, rtv/refmodel.py "
              "(self-validated against datetime 1-9999 and 400-year "
              "periodicity at every start), the probes in rtv/core.py. "
              "Decides only the executions the workloads produce.")


def main():
    props = [json.loads(line) for line in
             open(os.path.join(HERE, "properties.jsonl"))]
    checks = []
    na = []
    for p in props:
        pid = p["id"]
        mod = os.path.join(HERE, "rtv", "checks", pid.lower() + ".py")
        if pid in CHECKS and os.path.exists(mod):
            tech, text, ref = CHECKS[pid]
            checks.append({
                "property_id": pid,
                "quick_cmd": "./vcheck %s quick" % pid,
                "thorough_cmd": "./vcheck %s thorough" % pid,
                "evidence_file": "evidence/%s.json" % pid,
                "replay_cmd_template": "./vcheck replay {path}",
                "engine": "rtv",
                "level_claimed": {"category": "exploration", "text": text,
                                  "design_ref": "DESIGN.md section " + ref},
                "level_note": LEVEL_NOTE,
                "technique": "runtime monitoring: " + tech,
            })
        else:
            na.append({"property_id": pid,
                       "reason": "check not built yet (framework under "
                                 "construction); runtime monitoring applies "
                                 "and is planned in DESIGN.md section 6"})
    manifest = {
        "version": 1,
        "setup_cmd": "./setup.sh",
        "hooks": {
            "guard": "METOMI_ISODATETIME_VERIF",
            "enable": "no source hooks: every probe is attached from "
                      "outside by re-binding methods/module attributes of "
                      "the imported working tree (rtv/core.py Probes); the "
                      "guard variable is set by the harness and read only "
                      "by /verif code",
            "baseline_off_cmd": "cd /repo && /venv/bin/python -m pytest -ra "
                                "-q -p no:cacheprovider --timeout=900 "
                                "--continue-on-collection-errors",
            "source_commits": [],
            "add_only": True,
        },
        "engines": [{
            "name": "rtv", "path": "rtv/",
            "serves_properties": [c["property_id"] for c in checks],
            "kind_free_text": "runtime monitors (postconditions, reference-"
                              "model monitors, write barrier, step budgets) "
                              "attached to the real functions of /repo's "
                              "working tree, driven by sweeps, seeded "
                              "random, hostile and history workloads; "
                              "offline checkers over recorded event logs",
        }],
        "checks": checks,
        "notes": "Exit codes: 0 held, 1 violation (VIOLATION line + replay "
                 "file), 2 inconclusive (deciding monitor not reached / "
                 "class unobserved / watchdog). Known findings: "
                 "known_findings.txt. VERIF_SEED, VERIF_TIER, VERIF_REPO "
                 "honoured.",
        "not_applicable": na,
    }
    out = os.path.join(HERE, "MANIFEST.json")
    with open(out, "w") as fh:
        json.dump(manifest, fh, indent=1)
        fh.write("\n")
    code = ("import json,jsonschema,sys;"
            "jsonschema.validate(json.load(open(sys.argv[1])),"
            "json.load(open('/root/.vp/MANIFEST.schema.json')));"
            "print('MANIFEST valid:',len(json.load(open(sys.argv[1]))"
            "['checks']),'checks')")
    try:
        subprocess.run(["python3-vt", "-c", code, out], check=True)
    except FileNotFoundError:
        print("python3-vt not found; not validated")


if __name__ == "__main__":
    sys.exit(main())
