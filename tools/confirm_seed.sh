#!/bin/sh
# tools/confirm_seed.sh <id>  -- confirm both seeded changes of /tmp/seed/out/<id> in worktree /tmp/seed/<id>
id=$1; base=${2:-/tmp/seed}; wt=$base/$id; out=$base/out/$id
for k in 1 2; do
  [ -f $out/change$k.diff ] || { echo "$id/$k MISSING"; continue; }
  git -C $wt checkout -q -- . ; git -C $wt clean -fdq
  (cd $wt && TZ=UTC /venv/bin/python $out/demo$k.py >/dev/null 2>&1); clean=$?
  git -C $wt apply $out/change$k.diff 2>/dev/null || { echo "$id/$k NOAPPLY"; continue; }
  (cd $wt && TZ=UTC /venv/bin/python $out/demo$k.py >/dev/null 2>&1); broken=$?
  t=$(cd $wt && /venv/bin/python -m pytest -q -p no:cacheprovider --timeout=900 2>&1 | tail -1)
  fails=$(cd $wt && /venv/bin/python -m pytest -q -p no:cacheprovider --timeout=900 2>&1 | grep -c "^FAILED.*test_pipe")
  git -C $wt checkout -q -- . ; git -C $wt clean -fdq
  echo "$id/$k demo_clean=$clean demo_changed=$broken pipe_fails=$fails tests: $t"
done
