#!/usr/bin/env python3
"""Run the checks against every seeded change in /verif/seeded/*/patch.diff.

  python3 tools/seedmatrix.py [--all-checks] [--only C05-1,...] [--jobs N]

For each seed a scratch git worktree of /repo's HEAD is created under
$TMPDIR (outside /repo and /verif), the patch applied, the property's own
quick check (or all checks) run against it with VERIF_REPO, and the
worktree removed together with its __pycache__.  Results go to
selftest/RESULTS.json and a table is printed; also (re)writes each seed's
meta.json."""
import concurrent.futures
import json
import os
import re
import shutil
import subprocess
import sys
import tempfile
import time

HERE = os.path.dirname(os.path.dirname(os.path.abspath(__file__)))
ALL = ["C%02d" % i for i in range(1, 21)]


VSEED = "0"     # --vseed N: run the checks with another VERIF_SEED and do
DRY = False     # not record anything (robustness of the detection)


def run_seed(seed, checks, tier="quick"):
    sdir = os.path.join(HERE, "seeded", seed)
    # a seed that only the thorough tier reaches says so in a file `tier`
    if os.path.exists(os.path.join(sdir, "tier")):
        tier = open(os.path.join(sdir, "tier")).read().strip()
    tmp = tempfile.mkdtemp(prefix="seedwt-")
    wt = os.path.join(tmp, "wt")
    out = tempfile.mkdtemp(prefix="seedout-")
    res = {}
    try:
        for attempt in range(6):
            # (concurrent `git worktree add` calls race on a lock file)
            p = subprocess.run(["git", "-C", "/repo", "worktree", "add",
                                "--detach", "-q", wt, "HEAD"],
                               stderr=subprocess.PIPE)
            if p.returncode == 0:
                break
            time.sleep(0.5 + attempt)
        else:
            raise RuntimeError("git worktree add failed: %s" %
                               p.stderr.decode()[-200:])
        subprocess.run(["git", "-C", wt, "apply",
                        os.path.join(sdir, "patch.diff")], check=True)
        for chk in checks:
            env = dict(os.environ, VERIF_REPO=wt, VERIF_OUT=out,
                       VERIF_WATCHDOG="900" if tier == "quick" else "3000",
                       VERIF_SEED=VSEED)
            p = subprocess.run([os.path.join(HERE, "vcheck"), chk, tier],
                               env=env, stdout=subprocess.PIPE,
                               stderr=subprocess.STDOUT, cwd=HERE)
            text = p.stdout.decode(errors="replace")
            kinds = re.findall(r"^  violation kind (\S+): (\d+)", text, re.M)
            res[chk] = {"exit": p.returncode,
                        "violation_line": "VIOLATION property=" in text,
                        "kinds": {k: int(n) for k, n in kinds}}
    finally:
        subprocess.run(["git", "-C", "/repo", "worktree", "remove",
                        "--force", wt])
        shutil.rmtree(tmp, ignore_errors=True)
        shutil.rmtree(out, ignore_errors=True)
    return seed, res


def main():
    args = sys.argv[1:]
    all_checks = "--all-checks" in args
    only = None
    jobs = 8
    for i, a in enumerate(args):
        if a == "--only":
            only = args[i + 1].split(",")
        if a == "--jobs":
            jobs = int(args[i + 1])
        if a == "--vseed":
            global VSEED, DRY
            VSEED, DRY = args[i + 1], True
    seeds = sorted(d for d in os.listdir(os.path.join(HERE, "seeded"))
                   if os.path.exists(os.path.join(HERE, "seeded", d,
                                                  "patch.diff")))
    if only:
        seeds = [s for s in seeds if s in only]
    results = {}
    path = os.path.join(HERE, "selftest", "RESULTS.json")
    if os.path.exists(path):
        results = json.load(open(path))
    with concurrent.futures.ThreadPoolExecutor(jobs) as ex:
        futs = [ex.submit(run_seed, s,
                          ALL if all_checks else [s.split("-")[0]])
                for s in seeds]
        for f in concurrent.futures.as_completed(futs):
            seed, res = f.result()
            results.setdefault(seed, {}).update(res)
            own = seed.split("-")[0]
            caught = [c for c, r in results[seed].items()
                      if r["exit"] == 1 and r["violation_line"]]
            print("%-7s own-check %-4s %s  caught by: %s" % (
                seed, own, "CAUGHT" if own in caught else "MISSED",
                ",".join(sorted(caught))))
            if DRY:
                continue
            meta_path = os.path.join(HERE, "seeded", seed, "meta.json")
            notes = open(os.path.join(HERE, "seeded", seed,
                                      "notes.md")).read()
            meta = {
                "seed": seed, "property": own,
                "origin": "independent sub-agent given only the property "
                          "text and a scratch worktree of /repo",
                "needs_to_manifest": notes,
                "confirmed": "patch applies on /repo HEAD; repository test "
                             "suite unchanged (85 passed, 2 pre-existing "
                             "test_pipe failures); demo.py exits 1 with the "
                             "patch and 0 without (tools/confirm_seed.sh)",
                "checks_run": "tools/seedmatrix.py: ./vcheck <id> %s "
                              "with VERIF_REPO=<scratch worktree with the "
                              "patch applied>" % (
                                  open(os.path.join(HERE, "seeded", seed,
                                                    "tier")).read().strip()
                                  if os.path.exists(os.path.join(
                                      HERE, "seeded", seed, "tier"))
                                  else "quick"),
                "caught_by": sorted(caught),
                "violation_kinds": {c: r["kinds"] for c, r in
                                    results[seed].items() if r["kinds"]},
            }
            with open(meta_path, "w") as fh:
                json.dump(meta, fh, indent=1)
    if not DRY:
        os.makedirs(os.path.dirname(path), exist_ok=True)
        with open(path, "w") as fh:
            json.dump(results, fh, indent=1, sort_keys=True)
    missed = [s for s in seeds
              if not (results[s].get(s.split("-")[0], {}).get("exit") == 1)]
    print("seeds: %d, missed by own check: %s" % (len(seeds), missed))
    return 1 if missed else 0


if __name__ == "__main__":
    sys.exit(main())
